------------------------------ MODULE MC_Rebin ------------------------------
EXTENDS Rebin, TLC
CONSTANTS MaxV, BinSizes
VARIABLES maxv, binsize, v, out
vars == <<maxv, binsize, v, out>>
Init == /\ maxv \in 1..MaxV /\ binsize \in BinSizes /\ v \in 0..maxv
        /\ out = [n |-> BinCount(maxv, binsize), cls |-> ClassD(v, maxv, BinCount(maxv, binsize))]
Next == UNCHANGED vars
Spec == Init /\ [][Next]_vars
ExactlyOneClass == ClassesOf(v, maxv, out.n) = {out.cls}
=============================================================================

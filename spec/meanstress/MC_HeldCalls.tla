---------------------------- MODULE MC_HeldCalls ----------------------------
EXTENDS HeldCalls
ObjectsMC == [haigh |-> {"g0", "f0"}, matrix |-> {"rm", "ft"}]
ArgsMC == [haigh |-> {"unnamed3", "named12", "named567"}, matrix |-> {"s0", "s1", "s2"}]
=============================================================================

---------------------------- MODULE MC_HeldCalls ----------------------------
EXTENDS HeldCalls
ObjectsMC == [haigh |-> {"g0", "f0"}, matrix |-> {"rm", "ft"}]
ArgsMC == [haigh |-> {"unnamed3", "named12", "named567"}, matrix |-> {"s0", "s1", "s2"}]
(* extension (bin/vcheck ext): a kept DamageCalculatorPRAM asked for its lifetime and for N_max_bearable(P_A) in any order *)
ObjectsCalc == [pram |-> {"base1", "base3"}]
ArgsCalc == [pram |-> {"lifetime", "N50", "N1e5"}]
(* C15: a kept FailureProbability object; calls pf_simple_load / pf_norm_load / pf_norm_load with an array of scatters (raises) / pf_arbitrary_load *)
ObjectsFP == [failprob |-> {"s100", "s300"}]
ArgsFP == [failprob |-> {"simple", "norm", "bad", "arbitrary"}]
=============================================================================

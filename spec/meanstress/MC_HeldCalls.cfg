SPECIFICATION Spec
CONSTANTS
  Objects <- ObjectsMC
  Args <- ArgsMC
  Goals = {"m1", "z"}
  MaxCalls = 3
INVARIANT StateIsConstruction
INVARIANT AnswerIsHistoryFree

----------------------------- MODULE HeldCalls -----------------------------
(* Objects a caller keeps and asks more than once:                           *)
(*   "haigh"  — a HaighDiagram object (HaighDiagram.fkm_goodman(...) /       *)
(*              .five_segment(...)), asked to transform() one collective     *)
(*              after the other, to one R_goal after the other;              *)
(*   "matrix" — the meanstress_transform accessor of ONE rainflow matrix,    *)
(*              asked fkm_goodman(sensitivity, R_goal) repeatedly.           *)
(* The abstract state of such an object is what it was built from (obj) and  *)
(* NO call changes it: the answer to a call is a function of (obj, call)     *)
(* alone — the k-th answer of any history equals the answer a fresh object   *)
(* gives to the same call.  The numeric content of the answers is the        *)
(* subject of Haigh.tla / Rebin.tla; this module only owns the histories.    *)
EXTENDS Naturals, Sequences
CONSTANTS Objects,       \* what the object is built from (diagram ids / matrix ids), per kind
          Goals,         \* R_goal ids
          Args,          \* second call argument per kind: collective ids ("haigh") / sensitivity ids ("matrix")
          MaxCalls
VARIABLES kind, obj, state, hist
vars == <<kind, obj, state, hist>>
Kinds == DOMAIN Objects
Init == /\ kind \in Kinds /\ obj \in Objects[kind] /\ state = obj /\ hist = <<>>
(* the call as specified: the object's state is untouched *)
Call(g, x) == /\ Len(hist) < MaxCalls
              /\ hist' = Append(hist, <<g, x>>)
              /\ state' = state
              /\ UNCHANGED <<kind, obj>>
Next == \E g \in Goals, x \in Args[kind] : Call(g, x)
Spec == Init /\ [][Next]_vars
(* the answer of the object to its last call, as a term: a pure function of state and call *)
Answer(s, c) == <<s, c>>
StateIsConstruction == state = obj
AnswerIsHistoryFree == hist # <<>> => Answer(state, hist[Len(hist)]) = Answer(obj, hist[Len(hist)])
=============================================================================

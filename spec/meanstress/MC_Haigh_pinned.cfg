SPECIFICATION Spec
CONSTANTS
  CompressionLeftOfNegInf = FALSE
  Amps = {1, 3}
  Means <- MeansMC
  Diagrams = {"g0", "g3", "f0", "f1", "f2"}
  Goals = {"ninf", "m3", "m1", "mh", "z", "q", "h", "t", "two", "five"}
INVARIANT WalkIsIsoDamageLine
INVARIANT FixedPointAtGoal
INVARIANT Idempotent
INVARIANT PathIndependent
INVARIANT MonotoneInAmplitude

-------------------------------- MODULE Rebin --------------------------------
(* MeanstressTransformMatrix._rebin_results: the transformed ranges are re-binned into
   bincount = ceil(max / binsize) equal classes between 0 and max; class i counts a range v iff
   (i = 1 ? v >= left : v > left) /\ v <= right.  Values are integers (units of the lattice). *)
EXTENDS Integers, FiniteSets, Rat
CeilDiv(a, b) == -((-a) \div b)
BinCount(maxv, binsize) == CeilDiv(maxv, binsize)
Break(maxv, n, i) == Norm(maxv * i, n)                         \* np.linspace(0, max, n+1)[i]
InClass(v, maxv, n, i) ==
  LET l == Break(maxv, n, i - 1)  r == Break(maxv, n, i)  x == <<v, 1>>
  IN (IF l = <<0, 1>> THEN RLe(l, x) ELSE RLt(l, x)) /\ RLe(x, r)
ClassesOf(v, maxv, n) == {i \in 1..n : InClass(v, maxv, n, i)}
(* D: the least class whose right break is >= v (the first class also takes v = 0) *)
ClassD(v, maxv, n) == CHOOSE i \in 1..n : RLe(<<v, 1>>, Break(maxv, n, i)) /\ \A k \in 1..n : RLe(<<v, 1>>, Break(maxv, n, k)) => i <= k
=============================================================================

------------------------------ MODULE MC_Haigh ------------------------------
EXTENDS Haigh, TLC
CONSTANTS Amps, Means, Diagrams, Goals
VARIABLES a, m, dg, rg, out, outI
vars == <<a, m, dg, rg, out, outI>>
Diag(k) == CASE k = "g0" -> FKMGoodman(<<3, 10>>, <<1, 10>>)
             [] k = "g1" -> FKMGoodman(<<1, 2>>, <<1, 2>>)
             [] k = "g2" -> FKMGoodman(<<0, 1>>, <<0, 1>>)
             [] k = "g3" -> FKMGoodman(<<1, 4>>, <<0, 1>>)
             [] k = "f0" -> FiveSegment(<<1, 2>>, <<3, 10>>, <<1, 5>>, <<1, 10>>, <<0, 1>>, <<1, 4>>, <<1, 2>>)
             [] k = "f1" -> FiveSegment(<<3, 10>>, <<1, 5>>, <<1, 10>>, <<1, 10>>, <<1, 10>>, <<1, 2>>, <<3, 4>>)
             [] k = "f2" -> FiveSegment(<<3, 10>>, <<1, 5>>, <<1, 10>>, <<1, 10>>, <<1, 2>>, <<1, 4>>, <<1, 2>>)     \* steep compression segment: M4 = 1/2 > 1/3
Goal(k) == CASE k = "ninf" -> NInf [] k = "m3" -> <<-3, 1>> [] k = "m1" -> <<-1, 1>> [] k = "mh" -> <<-1, 2>> [] k = "z" -> Zero
             [] k = "q" -> <<1, 4>> [] k = "h" -> <<1, 2>> [] k = "t" -> <<3, 4>> [] k = "two" -> <<2, 1>> [] k = "five" -> <<5, 1>>
MeansMC == -6..6
InDomain(aa, mm, d, g) == PathPositive(<<aa, 1>>, Norm(mm, aa), MuOfR(Goal(g)), Diag(d))
Init == /\ a \in Amps /\ m \in Means /\ dg \in Diagrams /\ rg \in Goals
        /\ out = IF InDomain(a, m, dg, rg) THEN TransformD(<<a, 1>>, <<m, 1>>, Diag(dg), Goal(rg)) ELSE <<0, 0>>
        /\ outI = TransformI([a |-> <<a, 1>>, R |-> ROf(<<a, 1>>, <<m, 1>>)], Diag(dg), Goal(rg)).a
Next == UNCHANGED vars
Spec == Init /\ [][Next]_vars

Cyc == [a |-> <<a, 1>>, R |-> ROf(<<a, 1>>, <<m, 1>>)]
Dom == out # <<0, 0>>
(* known finding C12-M4-ninf: goal R = -inf, cycle with R > 1 and a diagram whose (1, inf) segment has M4 # 0:
   that segment has distance 0 from the goal and is never walked, the cycle keeps its amplitude *)
KF_C12_M4_ninf == ~CompressionLeftOfNegInf /\ Goal(rg) = NInf /\ ELt(One, Cyc.R) /\ Diag(dg)[1].M # Zero
WalkIsIsoDamageLine == Dom => (outI = out \/ KF_C12_M4_ninf)
EndsAtGoal == Dom => TransformI(Cyc, Diag(dg), Goal(rg)).R = Goal(rg)
FixedPointAtGoal == (Dom /\ Cyc.R = Goal(rg)) => out = <<a, 1>>
Idempotent == (Dom /\ ~KF_C12_M4_ninf) => LET c1 == TransformI(Cyc, Diag(dg), Goal(rg)) IN TransformI(c1, Diag(dg), Goal(rg)) = c1
PathIndependent ==
  Dom => \A g2 \in Goals :
           (InDomain(a, m, dg, g2) /\ PathPositive(TransformD(<<a, 1>>, <<m, 1>>, Diag(dg), Goal(g2)), MuOfR(Goal(g2)), MuOfR(Goal(rg)), Diag(dg)))
             => IsoWalk(TransformD(<<a, 1>>, <<m, 1>>, Diag(dg), Goal(g2)), MuOfR(Goal(g2)), MuOfR(Goal(rg)), Diag(dg)) = out
MonotoneInAmplitude == Dom => \A a2 \in Amps : (a2 > a /\ InDomain(a2, m, dg, rg)) => RLe(out, TransformD(<<a2, 1>>, <<m, 1>>, Diag(dg), Goal(rg)))
=============================================================================

SPECIFICATION Spec
CONSTANTS
  MaxV = 12
  BinSizes = {1, 2, 4}
INVARIANT ExactlyOneClass

-------------------------------- MODULE Haigh --------------------------------
(***************************************************************************)
(* strength/meanstress.py: HaighDiagram.transform / _SegmentTransformer.    *)
(* Numbers are exact rationals <<n, d>> (module Rat); stress ratios R may    *)
(* also be PInf / NInf.                                                      *)
(*  I  the walk as coded: segments "left" of the goal in ascending order of  *)
(*     the distance measure (stable for ties), boundary = right end unless   *)
(*     that is >= 1, then the left end (R = 1 is replaced by -inf); segments *)
(*     "right" of the goal in descending distance, boundary = left end; then *)
(*     the segment(s) containing the goal.  Membership is tested on the      *)
(*     closed interval after pushing R over the flipping point.              *)
(*  D  the iso-damage line: in the coordinate mu = mean/amplitude the        *)
(*     segments are ordered intervals; a cycle moves monotonically from its  *)
(*     mu to the goal's mu and a (1 + M mu) is conserved inside a segment.   *)
(***************************************************************************)
EXTENDS Integers, Sequences, FiniteSets, SeqX, Rat
CONSTANT CompressionLeftOfNegInf    \* TRUE (repaired code): the segment R > 1 (mid = +inf) is ordered left of everything, also of the goal R = -inf;
                                    \* FALSE (pinned): its NaN distance measure is filled with -1 like that of R = -inf, so it has distance 0 from that goal and is never walked
PInf == <<1, 0>>
NInf == <<-1, 0>>
IsInf(r) == r[2] = 0
(* order on extended rationals *)
ELt(p, q) == IF p = q THEN FALSE
             ELSE IF p = NInf \/ q = PInf THEN TRUE
             ELSE IF p = PInf \/ q = NInf THEN FALSE
             ELSE RLt(p, q)
ELe(p, q) == p = q \/ ELt(p, q)
One == <<1, 1>>
Zero == <<0, 1>>
(* (1+R)/(1-R) with the code's conventions: NaN (R = +-inf) is filled with -1 *)
FakeMean(R) == IF IsInf(R) THEN <<-1, 1>> ELSE RDiv(RAdd(One, R), RSub(One, R))

(* ---------------- I: as coded ---------------- *)
(* a diagram is a sequence of segments [l, r, M] in index order; cycles are [a, R] *)
Mid(s) == IF IsInf(s.l) /\ IsInf(s.r) THEN Zero ELSE IF IsInf(s.l) THEN s.l ELSE IF IsInf(s.r) THEN s.r ELSE RDiv(RAdd(s.l, s.r), <<2, 1>>)
Dist(s, Rg) == IF CompressionLeftOfNegInf /\ Mid(s) = PInf THEN NInf
               ELSE RSub(FakeMean(Mid(s)), IF Rg = NInf THEN <<-1, 1>> ELSE FakeMean(Rg))
(* stable (insertion) sort of segment positions by distance *)
RECURSIVE InsertSorted(_, _, _, _, _)
InsertSorted(sorted, i, diag, Rg, asc) ==
  IF sorted = <<>> THEN <<i>>
  ELSE IF (asc /\ ELt(Dist(diag[i], Rg), Dist(diag[Head(sorted)], Rg))) \/ (~asc /\ ELt(Dist(diag[Head(sorted)], Rg), Dist(diag[i], Rg)))
       THEN <<i>> \o sorted ELSE <<Head(sorted)>> \o InsertSorted(Tail(sorted), i, diag, Rg, asc)
RECURSIVE SortPos(_, _, _, _)
SortPos(ps, diag, Rg, asc) == IF ps = <<>> THEN <<>> ELSE InsertSorted(SortPos(FrontOf(ps), diag, Rg, asc), LastOf(ps), diag, Rg, asc)
LeftSegs(diag, Rg)  == SortPos(Positions(Len(diag), LAMBDA i : ELt(Dist(diag[i], Rg), Zero)), diag, Rg, TRUE)
RightSegs(diag, Rg) == SortPos(Positions(Len(diag), LAMBDA i : ELt(Zero, Dist(diag[i], Rg))), diag, Rg, FALSE)
Contains(s, R, closedLeft) == (IF closedLeft THEN ELe(s.l, R) ELSE ELt(s.l, R)) /\ (IF closedLeft THEN ELt(R, s.r) ELSE ELe(R, s.r))
GoalSegs(diag, Rg) ==
  LET c1 == Positions(Len(diag), LAMBDA i : Contains(diag[i], Rg, FALSE))       \* right-closed intervals
  IN IF c1 # <<>> THEN c1 ELSE Positions(Len(diag), LAMBDA i : Contains(diag[i], Rg, TRUE))

Flip(R, Rgoal) == IF R = NInf /\ ELt(One, Rgoal) THEN PInf ELSE IF R = PInf /\ ELt(Rgoal, One) THEN NInf ELSE R
MeanOf(c) == IF c.R = NInf THEN RSub(Zero, c.a) ELSE IF c.R = One THEN RSub(Zero, c.a)
             ELSE RMul(c.a, RDiv(RAdd(One, c.R), RSub(One, c.R)))
(* transform_cycles_in_interval(interval, R_goal) applied to one cycle *)
StepCycle(c, s, Rb) ==
  LET inIv == ELe(s.l, Flip(c.R, Rb)) /\ ELe(Flip(c.R, Rb), s.r)
      Rb2 == IF Rb = One THEN NInf ELSE Rb
      mean == MeanOf(c)
      num == RAdd(c.a, RMul(s.M, mean))
      a2 == IF Rb2 = NInf THEN RDiv(num, RSub(One, s.M))
            ELSE RDiv(RMul(RSub(One, Rb2), num), RAdd(RSub(One, Rb2), RMul(s.M, RAdd(One, Rb2))))
  IN IF inIv THEN [a |-> a2, R |-> Rb2] ELSE c
Boundary(s, mode, Rg) == CASE mode = "left" -> (IF ELt(s.r, One) THEN s.r ELSE s.l) [] mode = "right" -> s.l [] mode = "goal" -> Rg
RECURSIVE WalkSegs(_, _, _, _, _)
WalkSegs(c, diag, ps, mode, Rg) ==
  IF ps = <<>> THEN c ELSE WalkSegs(StepCycle(c, diag[Head(ps)], Boundary(diag[Head(ps)], mode, Rg)), diag, Tail(ps), mode, Rg)
TransformI(c, diag, Rg) ==
  LET c1 == WalkSegs(c, diag, LeftSegs(diag, Rg), "left", Rg)
      c2 == WalkSegs(c1, diag, RightSegs(diag, Rg), "right", Rg)
  IN WalkSegs(c2, diag, GoalSegs(diag, Rg), "goal", Rg)

(* ---------------- D: iso-damage line in mu = mean / amplitude ---------------- *)
(* mu of a stress ratio: R in (1, inf) -> (-inf,-1); R = +-inf -> -1; R in (-inf,1) -> (-1, inf) *)
MuOfR(R) == FakeMean(R)
(* a segment [l, r] in R is the mu interval [MuLo, MuHi]; R = 1 is mu = +-infinity *)
MuLo(s) == IF s.l = One THEN NInf ELSE MuOfR(s.l)        \* (1, inf): mu from -inf ...
MuHi(s) == IF s.r = One THEN PInf ELSE MuOfR(s.r)        \* (x, 1): ... to +inf
SegOfMuBetween(diag, lo, hi) ==       \* the segment whose mu interval covers (lo, hi), lo < hi
  CHOOSE i \in 1..Len(diag) : ELe(MuLo(diag[i]), lo) /\ ELe(hi, MuHi(diag[i]))
Boundaries(diag) == {MuLo(diag[i]) : i \in 1..Len(diag)} \cup {MuHi(diag[i]) : i \in 1..Len(diag)}
RECURSIVE IsoWalk(_, _, _, _)
IsoWalk(a, mu, mug, diag) ==
  IF mu = mug THEN a
  ELSE IF RLt(mu, mug)
       THEN LET B == {b \in Boundaries(diag) : ELt(mu, b) /\ ELt(b, mug)}
                nb == IF B = {} THEN mug ELSE CHOOSE b \in B : \A b2 \in B : ELe(b, b2)
                M == diag[SegOfMuBetween(diag, mu, nb)].M
            IN IsoWalk(RDiv(RMul(a, RAdd(One, RMul(M, mu))), RAdd(One, RMul(M, nb))), nb, mug, diag)
       ELSE LET B == {b \in Boundaries(diag) : ELt(mug, b) /\ ELt(b, mu)}
                nb == IF B = {} THEN mug ELSE CHOOSE b \in B : \A b2 \in B : ELe(b2, b)
                M == diag[SegOfMuBetween(diag, nb, mu)].M
            IN IsoWalk(RDiv(RMul(a, RAdd(One, RMul(M, mu))), RAdd(One, RMul(M, nb))), nb, mug, diag)
TransformD(a, mean, diag, Rg) == IsoWalk(a, RDiv(mean, a), MuOfR(Rg), diag)
(* the restriction of C12: the exact iso-damage amplitude stays positive all along the path *)
RECURSIVE PathPositive(_, _, _, _)
PathPositive(a, mu, mug, diag) ==
  IF mu = mug THEN RLt(Zero, a)
  ELSE LET up == RLt(mu, mug)
           B == IF up THEN {b \in Boundaries(diag) : ELt(mu, b) /\ ELt(b, mug)} ELSE {b \in Boundaries(diag) : ELt(mug, b) /\ ELt(b, mu)}
           nb == IF B = {} THEN mug ELSE IF up THEN CHOOSE b \in B : \A b2 \in B : ELe(b, b2) ELSE CHOOSE b \in B : \A b2 \in B : ELe(b2, b)
           M == diag[IF up THEN SegOfMuBetween(diag, mu, nb) ELSE SegOfMuBetween(diag, nb, mu)].M
           den == RAdd(One, RMul(M, nb))
       IN /\ RLt(Zero, den) /\ RLt(Zero, RAdd(One, RMul(M, mu)))
          /\ PathPositive(RDiv(RMul(a, RAdd(One, RMul(M, mu))), den), nb, mug, diag)

FKMGoodman(M, M2) == << [l |-> One, r |-> PInf, M |-> Zero], [l |-> NInf, r |-> Zero, M |-> M], [l |-> Zero, r |-> One, M |-> M2] >>
FiveSegment(M0, M1, M2, M3, M4, R12, R23) ==
  << [l |-> One, r |-> PInf, M |-> M4], [l |-> NInf, r |-> Zero, M |-> M0], [l |-> Zero, r |-> R12, M |-> M1],
     [l |-> R12, r |-> R23, M |-> M2], [l |-> R23, r |-> One, M |-> M3] >>
(* R of a cycle (amplitude a > 0, mean m): lower / upper with upper = 0 -> -inf *)
ROf(a, m) == LET up == RAdd(m, a)  lo == RSub(m, a) IN IF up = Zero THEN NInf ELSE RDiv(lo, up)
=============================================================================

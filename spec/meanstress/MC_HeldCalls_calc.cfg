SPECIFICATION Spec
CONSTANTS
  Objects <- ObjectsCalc
  Args <- ArgsCalc
  Goals = {"x"}
  MaxCalls = 3
INVARIANT StateIsConstruction
INVARIANT AnswerIsHistoryFree

SPECIFICATION Spec
CONSTANTS
  Objects <- ObjectsFP
  Args <- ArgsFP
  Goals = {"l1", "l2"}
  MaxCalls = 3
INVARIANT StateIsConstruction
INVARIANT AnswerIsHistoryFree

-------------------------------- MODULE FKMNL --------------------------------
(***************************************************************************)
(* FKM-nonlinear component curves, damage parameter P_RAM, P_RAM damage     *)
(* accumulation and load safety factors:                                    *)
(*   strength/woehler_fkm_nonlinear.py, damage_parameter.py (P_RAM),        *)
(*   fkm_nonlinear/damage_calculator.py (DamageCalculatorPRAM),             *)
(*   fkm_load_distribution.py.                                              *)
(* Curves live on the log2 lattice: P = P_Z * 2^j, d = -1/m  =>  N = 1000 *  *)
(* 2^(-j m) (P_RAM) resp. 2^(-j m) (P_RAJ).                                  *)
(***************************************************************************)
EXTENDS Integers, Sequences, FiniteSets, SeqX, Rat
Inf == 1000000

(* ---- WoehlerCurvePRAM.calc_N: P = Z*2^j, endurance P_D = Z*2^(-jd); result = exponent e with N = 1000*2^e ---- *)
RamN(m1, m2, jd, j) == IF j > -jd THEN (IF j >= 0 THEN -j * m1 ELSE -j * m2) ELSE Inf
(* calc_P_RAM(N = 1000*2^e) -> exponent of P/Z; requires divisibility on the lattice *)
RamLifeLimit(m2, jd) == jd * m2                       \* fatigue_life_limit = 1000 * 2^(jd*m2)
RamP(m1, m2, jd, e) == IF e < 0 THEN -(e \div m1) ELSE IF e < RamLifeLimit(m2, jd) THEN -(e \div m2) ELSE -jd
(* ---- WoehlerCurvePRAJ: N = (P/Z)^(1/d) = 2^(-j m) for P > current P_RAJ_D = Z*2^(-jcur), else inf;
        calc_P_RAJ uses the ORIGINAL endurance value P_RAJ_D_0 = Z*2^(-jd0) ---- *)
RajN(m, jcur, j) == IF j > -jcur THEN -j * m ELSE Inf
RajP(m, jd0, e) == IF e < jd0 * m THEN -(e \div m) ELSE -jd0

(* ---- P_RAM damage parameter: case analysis; M_sigma = 1/4 on the chosen (material group, R_m) pairs.
        k = M(M+2) = 9/16 for S_m >= 0, k = (M/3)(M/3+2) = 25/144 for S_m < 0;
        result = 144 * (S_a + k S_m)  (so P_RAM = sqrt(result/144 * eps_a * E)), 0 when negative ---- *)
PramDisc144(Sa, Sm) == LET k144 == IF Sm >= 0 THEN 81 ELSE 25  d == 144 * Sa + k144 * Sm IN IF d >= 0 THEN d ELSE -1

(* ---- DamageCalculatorPRAM.  A row is <<e, closed, run>>: N = 1000 * 2^e.  Damage in units of 1/(2000 * 2^S). ---- *)
S == 6
One == 2000 * (2 ^ S)
RowDamage(r) == (IF r[2] THEN 2 ELSE 1) * (2 ^ (S - r[1]))
RECURSIVE SumRun(_, _)
SumRun(rows, run) == IF rows = <<>> THEN 0 ELSE (IF Head(rows)[3] = run THEN RowDamage(Head(rows)) ELSE 0) + SumRun(Tail(rows), run)
CumAt(rows, i) == SumSeq([k \in 1..i |-> RowDamage(rows[k])])
(* I: as coded -- searchsorted(cumsum, 1) = number of entries < 1; x = (1 - D1)/D2; x+1; cycles *)
NUntil(rows) == Cardinality({i \in 1..Len(rows) : CumAt(rows, i) < One})
Early(rows) == NUntil(rows) < Len(rows)
XRat(rows) == Norm(One - SumRun(rows, 1), SumRun(rows, 2))
NRun2(rows) == Cardinality({i \in 1..Len(rows) : rows[i][3] = 2})
LifeTimes(rows) == IF Early(rows) THEN <<0, 1>> ELSE RAdd(XRat(rows), <<1, 1>>)
LifeCycles(rows) == IF Early(rows) THEN <<NUntil(rows), 1>> ELSE RMul(RAdd(XRat(rows), <<1, 1>>), <<NRun2(rows), 1>>)
(* D: literal accumulation: first pass once, then the second pass again and again until the sum reaches one *)
RECURSIVE Repeat(_, _, _)
Repeat(sum, d2, r) == IF sum >= One \/ r > 200 THEN r ELSE Repeat(sum + d2, d2, r + 1)
LiteralRepetitions(rows) == Repeat(SumRun(rows, 1), SumRun(rows, 2), 0)     \* number of COMPLETE second passes needed

(* ---- load safety factors (fkm_load_distribution.py).  beta*1000 from the table; P_L in {25 (=2.5 %), 500 (=50 %)};
        alpha = (0.7 beta - 2) s   resp.  0.7 beta s ; returned as alpha*10^4/s  (integer) ---- *)
Betas == {5200, 4750, 4270, 3800, 3090, 739, 0}
AlphaPerS(beta1000, pl) == IF pl = 25 THEN 7 * beta1000 - 20000 ELSE 7 * beta1000
LogNormalClipped(beta1000, pl, sPos) == sPos /\ AlphaPerS(beta1000, pl) <= 0     \* gamma_L = max(1, 10^alpha) = 1
=============================================================================

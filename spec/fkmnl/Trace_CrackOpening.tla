------------------------- MODULE Trace_CrackOpening -------------------------
(***************************************************************************)
(* The crack-opening-strain history of the P_RAJ damage parameter            *)
(* (damage_parameter.py P_RAJ._compute_crack_opening_loop, guideline          *)
(* chapter 2.9.7) as a per-point state machine, and the validation of        *)
(* recorded collectives against it.                                          *)
(*                                                                           *)
(* State carried from hysteresis to hysteresis (per assessment point):        *)
(*   eoAlt        previous crack opening strain     (starts at strain 0)      *)
(*   spMin, spMax strain extremes since the last "new extreme" event          *)
(* One step = one hysteresis of the collective with its inputs                *)
(*   emin, emax (its strains), eminLF, emaxLF (running extremes of the load   *)
(*   history), ein (single-step crack opening strain), saLarge (S_a >= 0.4    *)
(*   S_F), ninf (the hysteresis does no damage: N infinite)                   *)
(* and the outputs the code stored for it: case, eo (crack opening strain),   *)
(* spMinOut/spMaxOut, eoAltOut (state after the step), dmg.                   *)
(*                                                                           *)
(* Every decision of the procedure is a COMPARISON of strains, so strains    *)
(* are logged as their dense ranks among all strain values of the trace and  *)
(* 0: the validation is exact whatever the floating-point values are.  Only   *)
(* the relaxation of case 3, eoAlt' = ein - (ein - eoAlt) exp(-15/N), is      *)
(* numeric; it is specified by what follows from 0 < exp(-15/N) <= 1:         *)
(* eoAlt <= eoAlt' <= ein.                                                    *)
(* The code vectorises the procedure over the points of a batch with masks;  *)
(* a trace is ONE point of a batch, so acceptance of every trace also says    *)
(* that no point's state leaks into another's.                                *)
(***************************************************************************)
EXTENDS Integers, Sequences, TLC, Json, IOUtils, TLCExt
Traces == JsonDeserialize(IOEnv.TRACE_FILE).traces
VARIABLES tid, l, eoAlt, spMin, spMax, verdict
vars == <<tid, l, eoAlt, spMin, spMax, verdict>>
Min2(a, b) == IF a < b THEN a ELSE b
Max2(a, b) == IF a > b THEN a ELSE b
(* the procedure *)
Case(s, ea, lo, hi) ==
  IF s.emax < ea THEN "1"
  ELSE IF hi < s.emaxLF \/ lo > s.eminLF THEN "2"
  ELSE IF s.ein >= ea THEN "3"
  ELSE "4"
Opening(c, s, ea) == CASE c = "1" -> ea [] c = "2" -> s.ein [] c = "3" -> ea
                       [] c = "4" -> IF s.saLarge THEN s.ein ELSE ea
NewLo(c, s, lo) == IF c = "2" THEN s.eminLF ELSE Min2(lo, s.emin)
NewHi(c, s, hi) == IF c = "2" THEN s.emaxLF ELSE Max2(hi, s.emax)
(* admissible next eoAlt *)
AltOk(c, s, ea, eo, x) ==
  IF c # "3" THEN x = eo
  ELSE IF eo >= s.emin /\ ~s.ninf THEN ea <= x /\ x <= s.ein
  ELSE x = ea
Clause(s, ea, lo, hi) ==
  LET c == Case(s, ea, lo, hi)  eo == Opening(c, s, ea) IN
  IF s.case # c THEN "case"
  ELSE IF s.eo # eo THEN "crack_opening_strain"
  ELSE IF s.spMinOut # NewLo(c, s, lo) \/ s.spMaxOut # NewHi(c, s, hi) THEN "strain_extremes"
  ELSE IF ~AltOk(c, s, ea, eo, s.eoAltOut) THEN "previous_crack_opening_strain_update"
  ELSE IF s.dmg # (c # "1") THEN "damage_flag"
  ELSE "ok"
Init == /\ tid \in 1..Len(Traces) /\ l = 0 /\ verdict = "ok"
        /\ eoAlt = Traces[tid].zero /\ spMin = Traces[tid].zero /\ spMax = Traces[tid].zero
Step == /\ verdict = "ok" /\ l < Len(Traces[tid].steps)
        /\ LET s == Traces[tid].steps[l + 1] IN
             /\ verdict' = Clause(s, eoAlt, spMin, spMax)
             /\ eoAlt' = s.eoAltOut /\ spMin' = s.spMinOut /\ spMax' = s.spMaxOut
        /\ l' = l + 1 /\ UNCHANGED tid
Spec == Init /\ [][Step]_vars
Done == verdict # "ok" \/ l = Len(Traces[tid].steps)
Report == Done => PrintT(<<"V", tid, l, verdict>>)
=============================================================================

SPECIFICATION Spec
CONSTANTS
  NB = 5
  FixedLoop = TRUE
INVARIANT LoopIsDefinition
INVARIANT BatchIndependent

------------------------------ MODULE MC_FKMNL ------------------------------
EXTENDS FKMNL, TLC
CONSTANTS MaxRows
VARIABLES part, inp, out
vars == <<part, inp, out>>
Slopes == {<<3, 5>>, <<5, 3>>, <<4, 4>>, <<2, 1>>, <<250, 250>>, <<120, 250>>}      \* incl. very flat curves (|d| = 0.004)
JRange == -5..3
RowSet == {<<e, c, r>> : e \in {-12, -10, -8, -6, -4, 1}, c \in BOOLEAN, r \in {1, 2}}
Tables == {t \in UNION {[1..n -> RowSet] : n \in 1..MaxRows} :
             /\ \A i \in 1..(Len(t) - 1) : t[i][3] <= t[i+1][3]           \* first-pass rows first
             /\ t[Len(t)][3] = 2                                            \* at least one second-pass row
             /\ SumRun(t, 2) >= 4096                                        \* keeps the literal accumulation below ~32 repetitions
             /\ SumRun(t, 1) < One }                                       \* (failure inside the first pass is the "early" case, kept via e=-12 rows in pass 2)
SaSet == {0, 1, 50, 300}
SmSet == {-600, -300, -2, 0, 2, 100, 400}
Init ==
  \/ /\ part = "curve_ram" /\ inp \in [m : Slopes, jd : {1, 2, 4}, j : JRange]
     /\ out = [e |-> RamN(inp.m[1], inp.m[2], inp.jd, inp.j)]
  \/ /\ part = "curve_raj" /\ inp \in [m : {2, 3}, jd0 : {2, 3}, jcur : {1, 2, 3, 4}, j : -5..-1]
     /\ out = [e |-> RajN(inp.m, inp.jcur, inp.j)]
  \/ /\ part = "pram" /\ inp \in [sa : SaSet, sm : SmSet]
     /\ out = [disc144 |-> PramDisc144(inp.sa, inp.sm)]
  \/ /\ part = "accumulate" /\ inp \in [rows : Tables]
     /\ out = [early |-> Early(inp.rows), nuntil |-> NUntil(inp.rows), times |-> LifeTimes(inp.rows), cycles |-> LifeCycles(inp.rows)]
  \/ /\ part = "safety" /\ inp \in [beta : Betas, pl : {25, 500}]
     /\ out = [alpha_per_s |-> AlphaPerS(inp.beta, inp.pl), clipped |-> LogNormalClipped(inp.beta, inp.pl, TRUE)]
Next == UNCHANGED vars
Spec == Init /\ [][Next]_vars

(* ---- curves ---- *)
RamStrictlyDecreasing == part = "curve_ram" =>
  \A j2 \in JRange : (j2 > inp.j /\ out.e # Inf) => RamN(inp.m[1], inp.m[2], inp.jd, j2) < out.e
RamInfiniteAtAndBelowEndurance == part = "curve_ram" => ((out.e = Inf) <=> (inp.j <= -inp.jd))
RamContinuousAtKnees == part = "curve_ram" =>
  /\ RamN(inp.m[1], inp.m[2], inp.jd, 0) = 0                                        \* N = 1000 from both branches at P_Z
  /\ RamP(inp.m[1], inp.m[2], inp.jd, RamLifeLimit(inp.m[2], inp.jd)) = -inp.jd     \* P_D at the life limit from both sides
  /\ RamP(inp.m[1], inp.m[2], inp.jd, RamLifeLimit(inp.m[2], inp.jd) - inp.m[2]) = -inp.jd + 1
RamInverse == (part = "curve_ram" /\ out.e # Inf) => RamP(inp.m[1], inp.m[2], inp.jd, out.e) = inp.j
RajInverse == (part = "curve_raj" /\ out.e # Inf /\ inp.j > -inp.jd0) => RajP(inp.m, inp.jd0, out.e) = inp.j
RajInfiniteBelowCurrentEndurance == part = "curve_raj" => ((out.e = Inf) <=> (inp.j <= -inp.jcur))
(* ---- parameter ---- *)
PramZeroIffNegative == part = "pram" => ((out.disc144 = -1) <=> (144 * inp.sa + (IF inp.sm >= 0 THEN 81 ELSE 25) * inp.sm < 0))
(* ---- accumulation: as coded = literal ---- *)
AccumulationIsLiteral == (part = "accumulate" /\ ~out.early) =>
  LET r == LiteralRepetitions(inp.rows)  x == XRat(inp.rows)
  IN /\ r = RCeil(x)                                                \* ceil(x) complete second passes reach one ...
     /\ SumRun(inp.rows, 1) + (RCeil(x) - 1) * SumRun(inp.rows, 2) < One   \* ... one fewer does not
     /\ (x[2] = 1 => SumRun(inp.rows, 1) + x[1] * SumRun(inp.rows, 2) = One)
EarlyMeansFirstTwoPassesFail == (part = "accumulate" /\ out.early) =>
  /\ CumAt(inp.rows, out.nuntil + 1) >= One /\ (out.nuntil > 0 => CumAt(inp.rows, out.nuntil) < One)
(* ---- safety ---- *)
SafetyClip == part = "safety" => (out.clipped <=> out.alpha_per_s <= 0)
=============================================================================

SPECIFICATION Spec
INVARIANT Report

SPECIFICATION Spec
CONSTANTS
  MaxRows = 4
INVARIANT RamStrictlyDecreasing
INVARIANT RamInfiniteAtAndBelowEndurance
INVARIANT RamContinuousAtKnees
INVARIANT RamInverse
INVARIANT RajInverse
INVARIANT RajInfiniteBelowCurrentEndurance
INVARIANT PramZeroIffNegative
INVARIANT AccumulationIsLiteral
INVARIANT EarlyMeansFirstTwoPassesFail
INVARIANT SafetyClip

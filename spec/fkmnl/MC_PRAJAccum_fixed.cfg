SPECIFICATION Spec
CONSTANTS
  NB = 4
  FixedLoop = TRUE
INVARIANT LoopIsDefinition
INVARIANT BatchIndependent

---------------------------- MODULE MC_PRAJAccum ----------------------------
(* Every batch of one or two points over NB classes: threshold class q, class damages 0/1/2 that vanish from class q on
   (classes at or below the current endurance threshold do no damage). *)
EXTENDS PRAJAccum, TLC
VARIABLES batch, out
vars == <<batch, out>>
Points == {pt \in [q : 0..(NB - 2), d : [1..NB -> 0..2]] : \A i \in 0..(NB - 1) : i >= pt.q => pt.d[i + 1] = 0}
Init == /\ batch \in {<<a>> : a \in Points} \cup {<<a, b>> : a \in Points, b \in Points}
        /\ out = AsCoded(batch)
Next == UNCHANGED vars
Spec == Init /\ [][Next]_vars
LoopIsDefinition == \A p \in 1..Len(batch) : out[p] = Definition(batch[p])
BatchIndependent == \A p \in 1..Len(batch) : out[p] = AsCoded(<<batch[p]>>)[1]
=============================================================================

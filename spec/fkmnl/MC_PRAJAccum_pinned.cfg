SPECIFICATION Spec
CONSTANTS
  NB = 4
  FixedLoop = FALSE
INVARIANT LoopIsDefinition
INVARIANT BatchIndependent

----------------------------- MODULE PRAJAccum -----------------------------
(***************************************************************************)
(* DamageCalculatorPRAJ._compute_xbar_minus_2 (eq. 2.9-138): the number of   *)
(* further repetitions of the load sequence while the endurance threshold     *)
(* falls from class q to the last class,                                      *)
(*      xbar - 2  =  SUM_{j = q}^{NB-2}  (f(j+1) - f(j)) / SUM_{i = 0}^{j} d_i *)
(* where d_i = h_i / N_i is the damage of the hystereses of class i per       *)
(* repetition and f the crack growth function.  The code evaluates this for   *)
(* ALL assessment points of a batch in one loop that starts at the smallest   *)
(* q of the batch and adds "only the new summands" to a running denominator.  *)
(* I: that loop as coded, with the bookkeeping variable previous_j (pinned:   *)
(*    previous_j = j, repaired: previous_j = j + 1, constant FixedLoop);      *)
(* D: the double sum, point by point.                                         *)
(* Damages and increments are abstract positive integers: only the loop       *)
(* structure is modelled (the numeric content is C09's subject).              *)
(***************************************************************************)
EXTENDS Integers, Sequences, FiniteSets, Rat
CONSTANTS NB,             \* number of classes 0 .. NB-1
          FixedLoop       \* TRUE: repaired bookkeeping
R0 == <<0, 1>>
Inf == <<1, 0>>           \* denominator zero: the code returns np.inf
XAdd(a, b) == IF a = Inf \/ b = Inf THEN Inf ELSE RAdd(a, b)
Quot(n, den) == IF den = 0 THEN Inf ELSE Norm(n, den)
DF(j) == j + 1            \* f(j+1) - f(j): any positive increments; distinct values make a misplaced term visible
RECURSIVE SumTo(_, _)
SumTo(d, j) == IF j < 0 THEN 0 ELSE d[j + 1] + SumTo(d, j - 1)          \* SUM_{i=0}^{j} d_i  (d is 1-based: d[i+1] = d_i)
(* D *)
RECURSIVE XbarD(_, _, _)
XbarD(d, q, j) == IF j > NB - 2 THEN R0 ELSE XAdd(IF j >= q THEN Quot(DF(j), SumTo(d, j)) ELSE R0, XbarD(d, q, j + 1))
Definition(pt) == XbarD(pt.d, pt.q, pt.q)
(* I: one pass over j = min q .. NB-2 for all points; state of the loop: <<previous_j, denominators, xbars>> *)
MinQ(batch) == CHOOSE m \in {batch[p].q : p \in 1..Len(batch)} : \A p \in 1..Len(batch) : m <= batch[p].q
RECURSIVE AddRange(_, _, _, _)
AddRange(den, d, i, j) == IF i > j THEN den ELSE AddRange(den + d[i + 1], d, i + 1, j)
RECURSIVE Loop(_, _, _, _, _)
Loop(batch, j, prev, dens, xs) ==
  IF j > NB - 2 THEN xs
  ELSE LET dens2 == [p \in 1..Len(batch) |-> AddRange(dens[p], batch[p].d, prev, j)]
           xs2 == [p \in 1..Len(batch) |-> IF j >= batch[p].q THEN XAdd(xs[p], Quot(DF(j), dens2[p])) ELSE xs[p]]
       IN Loop(batch, j + 1, IF FixedLoop THEN j + 1 ELSE j, dens2, xs2)
AsCoded(batch) == Loop(batch, MinQ(batch), 0, [p \in 1..Len(batch) |-> 0], [p \in 1..Len(batch) |-> R0])
=============================================================================

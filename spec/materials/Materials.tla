------------------------------ MODULE Materials ------------------------------
(***************************************************************************)
(* materiallaws/hookeslaw.py, rambgood.py, true_stress_strain.py in exact    *)
(* rational arithmetic (module Rat).                                        *)
(***************************************************************************)
EXTENDS Integers, Sequences, SeqX, Rat
R1 == <<1, 1>>
R0 == <<0, 1>>
R2 == <<2, 1>>
RNeg(p) == <<-p[1], p[2]>>
(* ---- Hooke ---- *)
GMod(E, nu) == RDiv(E, RMul(R2, RAdd(R1, nu)))
KMod(E, nu) == RDiv(E, RMul(<<3, 1>>, RSub(R1, RMul(R2, nu))))
(* 3D: stress = <<s11,s22,s33,s12,s13,s23>>, strain = <<e11,e22,e33,g12,g13,g23>> (engineering shear) *)
Strain3D(E, nu, s) ==
  LET G == GMod(E, nu) IN
  << RDiv(RSub(s[1], RMul(nu, RAdd(s[2], s[3]))), E), RDiv(RSub(s[2], RMul(nu, RAdd(s[1], s[3]))), E), RDiv(RSub(s[3], RMul(nu, RAdd(s[1], s[2]))), E),
     RDiv(s[4], G), RDiv(s[5], G), RDiv(s[6], G) >>
Stress3D(E, nu, e) ==
  LET G == GMod(E, nu)
      f1 == RDiv(E, RMul(RAdd(R1, nu), RSub(R1, RMul(R2, nu))))
      f2 == RSub(R1, nu)
  IN << RMul(f1, RAdd(RMul(f2, e[1]), RMul(nu, RAdd(e[2], e[3])))), RMul(f1, RAdd(RMul(f2, e[2]), RMul(nu, RAdd(e[1], e[3])))),
        RMul(f1, RAdd(RMul(f2, e[3]), RMul(nu, RAdd(e[1], e[2])))), RMul(G, e[4]), RMul(G, e[5]), RMul(G, e[6]) >>
(* plane stress: strain(s11,s22,s12) -> <<e11,e22,e33,g12>> ; stress(e11,e22,g12) -> <<s11,s22,s12>> *)
StrainPlaneStress(E, nu, s) ==
  << RDiv(RSub(s[1], RMul(nu, s[2])), E), RDiv(RSub(s[2], RMul(nu, s[1])), E), RMul(RNeg(RDiv(nu, E)), RAdd(s[1], s[2])), RDiv(s[3], GMod(E, nu)) >>
StressPlaneStress(E, nu, e) ==
  LET f == RDiv(E, RSub(R1, RMul(nu, nu)))
  IN << RMul(f, RAdd(e[1], RMul(nu, e[2]))), RMul(f, RAdd(e[2], RMul(nu, e[1]))), RMul(GMod(E, nu), e[3]) >>
(* plane strain as coded: plane stress formulas with E' = E/(1-nu^2), nu' = nu/(1-nu); s33 = nu (s11 + s22) *)
StressPlaneStrain(E, nu, e) ==
  LET Et == RDiv(E, RSub(R1, RMul(nu, nu)))  nut == RDiv(nu, RSub(R1, nu))
      f == RDiv(Et, RSub(R1, RMul(nut, nut)))
      s11 == RMul(f, RAdd(e[1], RMul(nut, e[2])))  s22 == RMul(f, RAdd(e[2], RMul(nut, e[1])))
  IN << s11, s22, RMul(nu, RAdd(s11, s22)), RMul(GMod(E, nu), e[3]) >>
StrainPlaneStrain(E, nu, s) ==
  LET Et == RDiv(E, RSub(R1, RMul(nu, nu)))  nut == RDiv(nu, RSub(R1, nu))
  IN << RDiv(RSub(s[1], RMul(nut, s[2])), Et), RDiv(RSub(s[2], RMul(nut, s[1])), Et), RDiv(s[3], GMod(E, nu)) >>

(* ---- Ramberg-Osgood with n = 1/m:  strain(s) = s/E + sgn(s) (|s|/K)^m ; q = s/K ---- *)
RECURSIVE RPow(_, _)
RPow(p, k) == IF k = 0 THEN R1 ELSE RMul(p, RPow(p, k - 1))
RAbs(p) == <<Abs(p[1]), p[2]>>
RSgn(p) == Sgn(p[1])
(* results are kept as <<elastic part, plastic part>> (their sum would overflow TLC's 32-bit integers for small q) *)
ROStrain(E, K, m, q) == << RDiv(RMul(K, q), E), RMul(<<RSgn(q), 1>>, RPow(RAbs(q), m)) >>
ROCompliance(E, K, m, q) == << RDiv(R1, E), RMul(RDiv(<<m, 1>>, K), RPow(RAbs(q), m - 1)) >>
PMul2(pp) == << RMul(R2, pp[1]), RMul(R2, pp[2]) >>
PSub(a, b) == << RSub(a[1], b[1]), RSub(a[2], b[2]) >>
PNeg(a) == << RNeg(a[1]), RNeg(a[2]) >>
RODeltaStrain(E, K, m, dq) == PMul2(ROStrain(E, K, m, RDiv(dq, R2)))          \* Masing: doubled curve
ROLowerHysteresis(E, K, m, q, qmax) == PSub(ROStrain(E, K, m, qmax), RODeltaStrain(E, K, m, RSub(qmax, q)))
=============================================================================

---------------------------- MODULE MC_Materials ----------------------------
EXTENDS Materials, TLC
VARIABLES part, inp, out
vars == <<part, inp, out>>
Es == {<<1, 1>>, <<2, 1>>, <<210, 1>>}
Nus == {<<-1, 2>>, <<0, 1>>, <<1, 4>>, <<3, 10>>, <<2, 5>>}
Normal == {-2, 0, 1}
Qs == {<<-2, 1>>, <<-1, 1>>, <<-1, 2>>, <<0, 1>>, <<1, 10>>, <<1, 5>>, <<1, 2>>, <<1, 1>>, <<3, 2>>}
I(n) == <<n, 1>>
Rs32 == {<<-3, 2>>, <<-1, 1>>, <<-1, 2>>, <<0, 1>>, <<1, 4>>, <<1, 2>>, <<1, 1>>, <<3, 2>>, <<2, 1>>}
NusEdge == {<<131071, 262144>>, <<255, 512>>, <<-1023, 1024>>, <<49, 100>>}
Sq(r) == RMul(<<RSgn(r), 1>>, RMul(r, r))
ROStrain32(E, K, r) == << RDiv(RMul(K, Sq(r)), E), RMul(<<RSgn(r), 1>>, RPow(RAbs(r), 3)) >>
Init ==
  \/ /\ part = "hooke" /\ inp \in [E : Es, nu : Nus, s : {<<I(a), I(b), I(c), I(d), I(e), I(f)>> : a \in Normal, b \in Normal, c \in Normal, d \in {0, 3}, e \in {0, -1}, f \in {0, 2}}]
     /\ out = [strain3d |-> Strain3D(inp.E, inp.nu, inp.s),
               plane_stress_strain |-> StrainPlaneStress(inp.E, inp.nu, <<inp.s[1], inp.s[2], inp.s[4]>>),
               plane_strain_stress |-> StressPlaneStrain(inp.E, inp.nu, <<inp.s[1], inp.s[2], inp.s[4]>>),      \* the same numbers read as strains e11,e22,g12
               G |-> GMod(inp.E, inp.nu), K |-> IF inp.nu = <<1, 2>> THEN <<0, 0>> ELSE KMod(inp.E, inp.nu)]
  \/ /\ part = "ro" /\ inp \in [E : {<<100, 1>>, <<210000, 1>>}, K : {<<10, 1>>, <<1000, 1>>}, m : {2, 3, 5, 8}, q : Qs]
     /\ out = [strain |-> ROStrain(inp.E, inp.K, inp.m, inp.q), compliance |-> ROCompliance(inp.E, inp.K, inp.m, inp.q),
               delta_strain |-> IF inp.q[2] > 5 THEN <<R0, R0>> ELSE RODeltaStrain(inp.E, inp.K, inp.m, inp.q)]     \* (q/2)^8 of q = 1/10 does not fit 32 bits
  \* n = 2/3 (exponent 3/2): rational on stress levels that are squares, q = sgn(r) r^2  =>  (|q|)^(3/2) = |r|^3.   Covers 1/2 < n < 1.
  \/ /\ part = "ro32" /\ inp \in [E : {<<100, 1>>, <<210000, 1>>}, K : {<<10, 1>>, <<1000, 1>>}, r : Rs32]
     /\ out = [strain |-> ROStrain32(inp.E, inp.K, inp.r)]
  \* shear and bulk modulus over the whole admissible range of nu, up to 4e-6 below 1/2 and 1e-3 above -1
  \/ /\ part = "moduli" /\ inp \in [E : Es, nu : Nus \cup NusEdge]
     /\ out = [G |-> GMod(inp.E, inp.nu), K |-> KMod(inp.E, inp.nu)]
Next == UNCHANGED vars
Spec == Init /\ [][Next]_vars

HookeInverse3D == part = "hooke" => Stress3D(inp.E, inp.nu, out.strain3d) = inp.s
PlaneStressIs3DAtZeroOutOfPlaneStress == part = "hooke" =>
  LET e == Strain3D(inp.E, inp.nu, <<inp.s[1], inp.s[2], R0, inp.s[4], R0, R0>>)
  IN out.plane_stress_strain = <<e[1], e[2], e[3], e[4]>>
PlaneStrainIs3DAtZeroOutOfPlaneStrain == part = "hooke" =>
  LET s == Stress3D(inp.E, inp.nu, <<inp.s[1], inp.s[2], R0, inp.s[4], R0, R0>>)
  IN out.plane_strain_stress = <<s[1], s[2], s[3], s[4]>>
PlaneInverse == part = "hooke" =>
  /\ StressPlaneStress(inp.E, inp.nu, <<out.plane_stress_strain[1], out.plane_stress_strain[2], out.plane_stress_strain[4]>>) = <<inp.s[1], inp.s[2], inp.s[4]>>
  /\ StrainPlaneStrain(inp.E, inp.nu, <<out.plane_strain_stress[1], out.plane_strain_stress[2], out.plane_strain_stress[4]>>) = <<inp.s[1], inp.s[2], inp.s[4]>>
ROOddIncreasing == part = "ro" =>
  /\ ROStrain(inp.E, inp.K, inp.m, RNeg(inp.q)) = PNeg(out.strain)
  /\ \A q2 \in Qs : RLt(inp.q, q2) => LET s2 == ROStrain(inp.E, inp.K, inp.m, q2) IN RLt(out.strain[1], s2[1]) /\ (RSgn(s2[2]) >= RSgn(out.strain[2]))    \* the plastic part (an odd power of q) is compared by sign only: cross products overflow
RO32OddIncreasing == part = "ro32" =>
  /\ ROStrain32(inp.E, inp.K, RNeg(inp.r)) = PNeg(out.strain)
  /\ \A r2 \in Rs32 : RLt(inp.r, r2) => LET s2 == ROStrain32(inp.E, inp.K, r2) IN RLt(out.strain[1], s2[1]) /\ RLe(out.strain[2], s2[2])
ModuliPositive == part = "moduli" => RLt(R0, out.G) /\ RLt(R0, out.K) /\ out.K = RDiv(inp.E, RMul(<<3, 1>>, RSub(R1, RMul(R2, inp.nu))))
ROMasing == (part = "ro" /\ inp.q[2] <= 5) => /\ out.delta_strain = PMul2(ROStrain(inp.E, inp.K, inp.m, RDiv(inp.q, R2)))
                           /\ ROLowerHysteresis(inp.E, inp.K, inp.m, inp.q, inp.q) = out.strain
                           /\ RLt(R0, out.compliance[1]) /\ RLe(R0, out.compliance[2])
=============================================================================

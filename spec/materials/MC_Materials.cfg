SPECIFICATION Spec
INVARIANT HookeInverse3D
INVARIANT PlaneStressIs3DAtZeroOutOfPlaneStress
INVARIANT PlaneStrainIs3DAtZeroOutOfPlaneStrain
INVARIANT PlaneInverse
INVARIANT ROOddIncreasing
INVARIANT ROMasing
INVARIANT RO32OddIncreasing
INVARIANT ModuliPositive

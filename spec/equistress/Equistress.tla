------------------------------ MODULE Equistress ------------------------------
(***************************************************************************)
(* stress/equistress.py.  A stress tensor is built as T = R D R^T from       *)
(* integer principal values D = diag(l1,l2,l3) and the rotation R of an      *)
(* integer quaternion (a,b,c,d); with n = a^2+b^2+c^2+d^2 the entries of     *)
(* n*R are integers, so TN = n^2 * T is an integer tensor.                   *)
(* D (definitions): equivalent stresses from the principal values.           *)
(* Theorems checked by TLC: the component formulas used by the code (Mises   *)
(* from the six components, trace) are rotation invariant, i.e. equal the    *)
(* principal-value definitions for every rotation of the lattice.            *)
(***************************************************************************)
EXTENDS Integers, Sequences, SeqX
QNorm(q) == q[1]*q[1] + q[2]*q[2] + q[3]*q[3] + q[4]*q[4]
(* n * R *)
RotN(q) == LET a == q[1] b == q[2] c == q[3] d == q[4] IN
  << << a*a + b*b - c*c - d*d, 2*(b*c - a*d),         2*(b*d + a*c) >>,
     << 2*(b*c + a*d),         a*a - b*b + c*c - d*d, 2*(c*d - a*b) >>,
     << 2*(b*d - a*c),         2*(c*d + a*b),         a*a - b*b - c*c + d*d >> >>
(* TN[i][j] = sum_k RN[i][k] l[k] RN[j][k]  = n^2 * T[i][j] *)
TensorN(q, l) == LET R == RotN(q) IN
  [i \in 1..3 |-> [j \in 1..3 |-> R[i][1]*l[1]*R[j][1] + R[i][2]*l[2]*R[j][2] + R[i][3]*l[3]*R[j][3]]]
Voigt(T) == << T[1][1], T[2][2], T[3][3], T[1][2], T[1][3], T[2][3] >>       \* s11 s22 s33 s12 s13 s23

(* ---- D: from principal values ---- *)
LMax(l) == Max2(l[1], Max2(l[2], l[3]))
LMin(l) == Min2(l[1], Min2(l[2], l[3]))
MisesSq2(l) == (l[1]-l[2])*(l[1]-l[2]) + (l[1]-l[3])*(l[1]-l[3]) + (l[2]-l[3])*(l[2]-l[3])      \* = 2 * mises^2
TrescaD(l) == LMax(l) - LMin(l)
AbsMaxD(l) == IF LMax(l) + LMin(l) >= 0 THEN LMax(l) ELSE LMin(l)       \* largest magnitude with its sign, +1 rule for the tie
SignTraceD(l) == IF l[1] + l[2] + l[3] >= 0 THEN 1 ELSE -1               \* +1 for a zero indicator
SignAbsMaxD(l) == IF LMax(l) + LMin(l) >= 0 THEN 1 ELSE -1

(* ---- I: the component formula of mises(): s11^2+s22^2+s33^2 - s11 s22 - s11 s33 - s22 s33 + 3 (s12^2+s13^2+s23^2) ---- *)
MisesSqFromComponents(v) == v[1]*v[1] + v[2]*v[2] + v[3]*v[3] - v[1]*v[2] - v[1]*v[3] - v[2]*v[3] + 3*(v[4]*v[4] + v[5]*v[5] + v[6]*v[6])
TraceOf(v) == v[1] + v[2] + v[3]
=============================================================================

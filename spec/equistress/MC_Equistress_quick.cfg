SPECIFICATION Spec
CONSTANTS
  LRange = 2
  QRange = 2
INVARIANT MisesRotationInvariant
INVARIANT TraceRotationInvariant
INVARIANT SymmetricTensor
INVARIANT MisesTrescaBounds
INVARIANT SignedMagnitude

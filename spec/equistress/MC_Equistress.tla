---------------------------- MODULE MC_Equistress ----------------------------
EXTENDS Equistress, TLC
CONSTANTS LRange, QRange
VARIABLES l, q, out
vars == <<l, q, out>>
LVals == -LRange..LRange
Quats == {<<a, b, c, d>> : a \in 0..QRange, b \in (-1)..QRange, c \in 0..QRange, d \in (-1)..1} \ {<<0, 0, 0, 0>>}
Init == /\ l \in LVals \X LVals \X LVals /\ q \in {qq \in Quats : QNorm(qq) <= 15}
        /\ out = [n |-> QNorm(q), tn |-> Voigt(TensorN(q, l)), mises_sq2 |-> MisesSq2(l), tresca |-> TrescaD(l), lmax |-> LMax(l), lmin |-> LMin(l),
                  absmax |-> AbsMaxD(l), sign_trace |-> SignTraceD(l), sign_absmax |-> SignAbsMaxD(l),
                  trace_zero |-> (l[1] + l[2] + l[3] = 0), absmax_tie |-> (LMax(l) + LMin(l) = 0)]
Next == UNCHANGED vars
Spec == Init /\ [][Next]_vars

n2 == out.n * out.n
MisesRotationInvariant == 2 * MisesSqFromComponents(out.tn) = n2 * n2 * out.mises_sq2
TraceRotationInvariant == TraceOf(out.tn) = n2 * (l[1] + l[2] + l[3])
SymmetricTensor == LET T == TensorN(q, l) IN T[1][2] = T[2][1] /\ T[1][3] = T[3][1] /\ T[2][3] = T[3][2]
(* Mises <= Tresca <= 2/sqrt(3) Mises, on squares: 2 m^2 <= 2 t^2 and 3 t^2 <= 4 m^2 *)
MisesTrescaBounds == out.mises_sq2 <= 2 * out.tresca * out.tresca /\ 3 * out.tresca * out.tresca <= 2 * out.mises_sq2
SignedMagnitude == Abs(out.absmax) = Max2(Abs(out.lmax), Abs(out.lmin))
=============================================================================

SPECIFICATION Spec
CONSTANTS
  LRange = 3
  QRange = 3
INVARIANT MisesRotationInvariant
INVARIANT TraceRotationInvariant
INVARIANT SymmetricTensor
INVARIANT MisesTrescaBounds
INVARIANT SignedMagnitude

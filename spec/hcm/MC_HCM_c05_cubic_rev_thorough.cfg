SPECIFICATION Spec
CONSTANTS
  Vals <- Sym3
  OnlyReversals = TRUE
  MaxLen = 8
  Scale = 2
  LawId = "cubic"
  LawTable <- EmptyTable
  FixedJunction = TRUE
INVARIANT Counters
INVARIANT RunsOrdered
INVARIANT ExtremesBracket
INVARIANT ExtremesAreMinMax
INVARIANT ScaleInvariantDecisions
INVARIANT NegateMirrors
INVARIANT RowsOrdered
INVARIANT Memory3OnlyFirstPassSymmetric

SPECIFICATION Spec
CONSTANTS
  Vals <- Sym2
  OnlyReversals = FALSE
  MaxLen = 5
  Scale = 1
  LawId = "asym"
  LawTable <- EmptyTable
  FixedJunction = TRUE
INVARIANT Counters
INVARIANT RunsOrdered
INVARIANT ExtremesBracket
INVARIANT ScaleInvariantDecisions
INVARIANT RowsOrdered
INVARIANT Memory3OnlyFirstPassSymmetric

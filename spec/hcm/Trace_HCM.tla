------------------------------ MODULE Trace_HCM ------------------------------
(* Validation of recorded executions of the real FKMNonlinearDetector:        *)
(* each trace = the calls process_hcm_first(samples), process_hcm_second(     *)
(* samples) (or raw process(chunk, flush) calls) with the recorder content     *)
(* and strain list logged after each call.  Accepted iff every logged          *)
(* projection is the one the specification produces (clause names the first    *)
(* differing part); C04 is evaluated by TLC on the logged final content.       *)
EXTENDS HCMNL, TLC, Json, IOUtils, TLCExt
Traces == JsonDeserialize(IOEnv.TRACE_FILE).traces
TableFromFile == JsonDeserialize(IOEnv.TRACE_FILE).law_table      \* used by Trace_HCM_table.cfg
Tol == IF LawId = "table" THEN 8 ELSE 0        \* integer image of real-law values: sums of rounded values may differ by a few units
VARIABLES tid, l, st, verdict
vars == <<tid, l, st, verdict>>
Events(t) == Traces[t].events

NearI(x, y) == x - y <= Tol /\ y - x <= Tol
RowNear(a, b) == /\ a.lmin = b.lmin /\ a.lmax = b.lmax /\ a.closed = b.closed /\ a.zero = b.zero /\ a.run = b.run
                 /\ NearI(a.smin, b.smin) /\ NearI(a.smax, b.smax) /\ NearI(a.emin, b.emin) /\ NearI(a.emax, b.emax)
                 /\ NearI(a.eminLF, b.eminLF) /\ NearI(a.emaxLF, b.emaxLF)
RowsNear(r1, r2) == Len(r1) = Len(r2) /\ \A k \in 1..Len(r1) : RowNear(r1[k], r2[k])
SeqNear(s1, s2) == Len(s1) = Len(s2) /\ \A k \in 1..Len(s1) : NearI(s1[k], s2[k])
LoadKeys(rows) == [k \in 1..Len(rows) |-> <<rows[k].lmin, rows[k].lmax, rows[k].closed, rows[k].run>>]

ModelStep(s, e) ==
  CASE e.call = "first"  -> HProcess(s, <<0>> \o e.samples, Flush1(e.samples), FALSE)
    [] e.call = "second" -> HProcess(s, e.samples, Flush2(e.samples), TRUE)
    [] e.call = "process" -> HProcess(s, e.samples, e.flush, FALSE)

Clause(s2, e) ==
  IF Len(s2.rows) # Len(e.rows) THEN "row_count"
  ELSE IF LoadKeys(s2.rows) # LoadKeys(e.rows) THEN "loads_flags_run"
  ELSE IF ~RowsNear(s2.rows, e.rows) THEN "stress_strain_columns"
  ELSE IF ~SeqNear(s2.strains, e.strains) THEN "strain_values"
  ELSE IF s2.nfirst # e.nfirst THEN "strain_values_first_run"
  ELSE "ok"

Init == tid \in 1..Len(Traces) /\ l = 0 /\ st = H0 /\ verdict = "ok"
Step == /\ verdict = "ok" /\ l < Len(Events(tid))
        /\ LET e == Events(tid)[l + 1]  s2 == ModelStep(st, e)
           IN st' = s2 /\ verdict' = Clause(s2, e)
        /\ l' = l + 1 /\ UNCHANGED tid
Spec == Init /\ [][Step]_vars

Done == verdict # "ok" \/ l = Len(Events(tid))
(* C04 decided on the LOGGED recorder content of a complete two-pass trace (independent of the model state) *)
LoggedC04 ==
  IF l = 2 /\ Events(tid)[1].call = "first" /\ Events(tid)[2].call = "second" /\ Distinct2(Events(tid)[1].samples)
  THEN LET rows == Events(tid)[2].rows
           pseudo == [rows |-> rows]
       IN IF ~C04_SecondPass(Events(tid)[1].samples, pseudo) THEN "second_pass_not_steady_state"
          ELSE IF ~C04_Memory3(pseudo) THEN "memory3"
          ELSE "holds"
  ELSE "n/a"
Report == Done => PrintT(<<"V", tid, l, verdict, LoggedC04>>)
=============================================================================

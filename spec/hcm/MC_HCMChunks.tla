----------------------------- MODULE MC_HCMChunks -----------------------------
(***************************************************************************)
(* Extension beyond the listed properties: FKMNonlinearDetector.process()   *)
(* fed in chunks (single assessment point).  AbstractDetector documents that *)
(* process() must be independent of the chunk size; this model checks it for *)
(* the HCM detector: rows (all columns), strain list, counters.             *)
(***************************************************************************)
EXTENDS HCMNL, TLC
CONSTANTS Vals, MaxLen
Sym2 == -2..2
VARIABLES fed, cuts, st
vars == <<fed, cuts, st>>
Init == fed = <<>> /\ cuts = <<>> /\ st = H0
Next == \E n \in 1..(MaxLen - Len(fed)) : \E chunk \in [1..n -> Vals] :
          /\ fed' = fed \o chunk /\ cuts' = Append(cuts, Len(chunk)) /\ st' = HProcess(st, chunk, FALSE, FALSE)
Spec == Init /\ [][Next]_vars
One == HProcess(H0, fed, FALSE, FALSE)
Strip(rows) == [k \in 1..Len(rows) |-> [rows[k] EXCEPT !.run = 0, !.nvis = 0]]      \* run index counts the calls by design
LoadsFlags(rows) == [k \in 1..Len(rows) |-> <<rows[k].lmin, rows[k].lmax, rows[k].smin, rows[k].smax, rows[k].emin, rows[k].emax, rows[k].closed>>]
ChunkIndependentHystereses == fed # <<>> => LoadsFlags(st.rows) = LoadsFlags(One.rows) /\ st.strains = One.strains /\ st.iz = One.iz /\ st.ir = One.ir /\ st.mx = One.mx
ChunkIndependentRunningExtremes == fed # <<>> => Strip(st.rows) = Strip(One.rows)
=============================================================================

SPECIFICATION Spec
CONSTANTS
  Vals <- Pos3
  OnlyReversals = FALSE
  MaxLen = 7
  Scale = 1
  LawId = "lin"
  LawTable <- EmptyTable
  FixedJunction = TRUE
INVARIANT SecondPassIsSteadyState
INVARIANT Memory3OnlyFirstPassSymmetric
INVARIANT Counters
INVARIANT RunsOrdered
INVARIANT ExtremesBracket

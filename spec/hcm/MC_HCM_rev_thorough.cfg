SPECIFICATION Spec
CONSTANTS
  Vals <- Sym3
  OnlyReversals = TRUE
  MaxLen = 9
  Scale = 1
  LawId = "lin"
  LawTable <- EmptyTable
  FixedJunction = TRUE
INVARIANT SecondPassIsSteadyState
INVARIANT Memory3OnlyFirstPassSymmetric
INVARIANT Counters
INVARIANT RunsOrdered
INVARIANT ExtremesBracket

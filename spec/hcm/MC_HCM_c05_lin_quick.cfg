SPECIFICATION Spec
CONSTANTS
  Vals <- Sym2
  OnlyReversals = FALSE
  MaxLen = 5
  Scale = 1
  LawId = "lin"
  LawTable <- EmptyTable
  FixedJunction = TRUE
INVARIANT Counters
INVARIANT RunsOrdered
INVARIANT ExtremesBracket
INVARIANT ExtremesAreMinMax
INVARIANT ScaleInvariantDecisions
INVARIANT NegateMirrors
INVARIANT RowsOrdered
INVARIANT Memory3OnlyFirstPassSymmetric

SPECIFICATION Spec
CONSTANTS
  Vals <- Sym2
  MaxLen = 5
  LawId = "lin"
  LawTable <- EmptyTable
  FixedJunction = TRUE
INVARIANT ChunkIndependentHystereses
INVARIANT ChunkIndependentRunningExtremes

SPECIFICATION Spec
CONSTANTS
  Vals <- Sym2
  MaxLen = 5
  LawId = "lin"
  FixedJunction = TRUE
INVARIANT ChunkIndependentHystereses
INVARIANT ChunkIndependentRunningExtremes

SPECIFICATION Spec
CONSTANTS
  LawId = "asym"
  LawTable <- EmptyTable
  FixedJunction = TRUE
INVARIANT Report

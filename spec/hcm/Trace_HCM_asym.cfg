SPECIFICATION Spec
CONSTANTS
  LawId = "asym"
  FixedJunction = TRUE
INVARIANT Report

------------------------------- MODULE HCMNL -------------------------------
(***************************************************************************)
(* FKM-nonlinear HCM counting: stress/rainflow/fkm_nonlinear.py             *)
(* (FKMNonlinearDetector) + recorders.py (FKMNonlinearRecorder).            *)
(*                                                                         *)
(* I  implementation shaped: _hcm_process_sample with its cases a)i a)ii b  *)
(*    c)i c)ii-A/B, the counters iz / ir / load_max_seen, the residual      *)
(*    stack of <<load, stress, strain>> points, the running strain extremes *)
(*    with the code's direction rule, the strain list, run_index, and the   *)
(*    two-pass protocol process_hcm_first / process_hcm_second on top of    *)
(*    the _new_turns chunk protocol (module Rainflow).                      *)
(* D  Periodic(s): rainflow of the endlessly repeated sequence (C04).       *)
(*                                                                         *)
(* The notch approximation law is abstract: four odd integer functions      *)
(* selected by LawId; the harness injects the same functions into the real  *)
(* detector, so every column is compared exactly.                           *)
(* Loads are integers; the code's 1e-12 tolerances vanish on this lattice   *)
(* (named deviation).                                                       *)
(***************************************************************************)
EXTENDS Integers, Sequences, FiniteSets, SeqX, Rainflow, TLC
CONSTANTS LawId, FixedJunction, LawTable
EmptyTable == [psig |-> <<>>, peps |-> <<>>, ssig |-> <<>>, seps |-> <<>>]

Cube(x) == x * x * x
Mod0(a, b) == a % b
(* ---- the abstract law ---- *)
(* LawId = "table": the law is given by the argument -> result tables recorded from a REAL law object
   (ExtendedNeuber, SeegerBeste, Binned); keys are ToString(load), values integers in milli-MPa / nano-strain *)
PSig(L) == CASE LawId = "lin" -> L [] LawId = "cubic" -> 2 * L [] LawId = "asym" -> 2 * L [] LawId = "table" -> LawTable.psig[ToString(L)]
PEps(S, L) == CASE LawId = "lin" -> L [] LawId = "cubic" -> L + Cube(L) [] LawId = "asym" -> S + Cube(L) [] LawId = "table" -> LawTable.peps[ToString(L)]
SSig(dL) == CASE LawId = "lin" -> dL [] LawId = "cubic" -> 2 * dL [] LawId = "asym" -> 3 * dL [] LawId = "table" -> LawTable.ssig[ToString(dL)]
SEps(dS, dL) == CASE LawId = "lin" -> dL
                  [] LawId = "cubic" -> dL + (Cube(dL) \div 4)      \* Masing doubling; exact for even dL
                  [] LawId = "asym" -> dS + Cube(dL)
                  [] LawId = "table" -> LawTable.seps[ToString(dL)]

Primary(L) == LET s == PSig(L) IN [L |-> L, S |-> s, E |-> PEps(s, L)]
Secondary(p, L) == LET dL == L - p.L  dS == SSig(dL) IN [L |-> L, S |-> p.S + dS, E |-> p.E + SEps(dS, dL)]

(* ---- detector state ---- *)
H0 == [res |-> <<>>, iz |-> 0, ir |-> 1, mx |-> 0, run |-> 0, rows |-> <<>>, strains |-> <<>>, nfirst |-> 0,
       eminLF |-> 0, emaxLF |-> 0, tail |-> <<>>, head |-> 0]

Row(st, lo, hi, closed) ==
  [lmin |-> lo.L, lmax |-> hi.L, smin |-> lo.S, smax |-> hi.S, emin |-> lo.E, emax |-> hi.E,
   eminLF |-> st.eminLF, emaxLF |-> st.emaxLF, closed |-> closed, zero |-> ~closed, run |-> st.run,
   nvis |-> Len(st.strains)]

Visit(st, cur) == [st EXCEPT !.strains = Append(@, cur.E), !.nfirst = IF st.run = 1 THEN @ + 1 ELSE @]

(* _hcm_process_sample: returns [st, cur] *)
RECURSIVE HSample(_, _)
HSample(st, K) ==
  IF st.iz = st.ir THEN
       LET p == LastOf(st.res) IN
       IF Abs(K) > st.mx
       THEN LET cur == Primary(K)                                       \* a) i   Memory 3: half hysteresis +-|p|
                ap  == [L |-> Abs(p.L), S |-> Abs(p.S), E |-> Abs(p.E)]
                an  == [L |-> -Abs(p.L), S |-> -Abs(p.S), E |-> -Abs(p.E)]
                s1  == [st EXCEPT !.rows = Append(@, Row(st, an, ap, FALSE)), !.ir = @ + 1]
            IN [st |-> Visit(s1, cur), cur |-> cur]
       ELSE LET cur == Secondary(p, K) IN [st |-> Visit(st, cur), cur |-> cur]   \* a) ii
  ELSE IF st.iz < st.ir THEN
       LET cur == Primary(K) IN [st |-> Visit(st, cur), cur |-> cur]             \* b   Memory 1
  ELSE LET n == Len(st.res)  p0 == st.res[n-1]  p1 == st.res[n] IN
       IF Abs(K - p1.L) < Abs(p1.L - p0.L)
       THEN LET cur == Secondary(p1, K) IN [st |-> Visit(st, cur), cur |-> cur]  \* c) i
       ELSE LET lo(f(_)) == IF f(p0) < f(p1) THEN f(p0) ELSE f(p1)
                hi(f(_)) == IF f(p0) > f(p1) THEN f(p0) ELSE f(p1)
                pl == [L |-> lo(LAMBDA q : q.L), S |-> lo(LAMBDA q : q.S), E |-> lo(LAMBDA q : q.E)]
                ph == [L |-> hi(LAMBDA q : q.L), S |-> hi(LAMBDA q : q.S), E |-> hi(LAMBDA q : q.E)]
                s1 == [st EXCEPT !.rows = Append(@, Row(st, pl, ph, TRUE)), !.res = SubSeq(@, 1, n - 2), !.iz = @ - 2]
            IN IF Abs(p0.L) < st.mx /\ Abs(p1.L) < st.mx
               THEN HSample(s1, K)                                                \* c) ii B  Memory 2
               ELSE LET cur == Primary(K) IN [st |-> Visit(s1, cur), cur |-> cur] \* c) ii A  Memory 1

(* one turning point: sample, then max load, iz, residual push, running strain extremes (direction from prev) *)
HTurn(st, K, prev) ==
  LET r  == HSample(st, K)
      s1 == r.st
      c  == r.cur
  IN [s1 EXCEPT !.mx = IF Abs(K) > @ THEN Abs(K) ELSE @, !.iz = @ + 1, !.res = Append(@, c),
                !.emaxLF = IF prev < K THEN (IF @ > c.E THEN @ ELSE c.E) ELSE @,
                !.eminLF = IF prev < K THEN @ ELSE (IF @ < c.E THEN @ ELSE c.E)]

RECURSIVE HTurns(_, _, _)
HTurns(st, tv, prev) == IF tv = <<>> THEN st ELSE HTurns(HTurn(st, Head(tv), prev), Tail(tv), Head(tv))

(* rows recorded while the turning points carried over from the previous call are processed *)
RECURSIVE RowsAfter(_, _, _, _)
RowsAfter(st, tv, prev, k) == IF k = 0 THEN Len(st.rows) ELSE RowsAfter(HTurn(st, Head(tv), prev), Tail(tv), Head(tv), k - 1)

(* process(samples, flush); secondRun = called through process_hcm_second *)
HProcess(st, samples, flush, secondRun) ==
  LET nt == NewTurns(st.tail, st.head, samples, flush)
      s0 == [st EXCEPT !.run = @ + 1]
      s1 == HTurns(s0, nt.tv, 0)
      carried == Cardinality({k \in 1..Len(nt.tix) : nt.tix[k] < st.head})
      nprev == IF FixedJunction /\ secondRun /\ carried > 0 THEN RowsAfter(s0, nt.tv, 0, carried) ELSE Len(st.rows)
      rows == [k \in 1..Len(s1.rows) |-> IF k > Len(st.rows) /\ k <= nprev THEN [s1.rows[k] EXCEPT !.run = s0.run - 1] ELSE s1.rows[k]]
  IN [s1 EXCEPT !.tail = nt.tail, !.head = nt.head, !.rows = rows]

(* ---- two-pass protocol ---- *)
EndsWithTurnOfRepeated(s) ==           \* is the last sample (its plateau) a reversal of s followed by itself
  LET RECURSIVE PlateauStart(_)
      PlateauStart(i) == IF i > 1 /\ s[i-1] = s[i] THEN PlateauStart(i - 1) ELSE i
      last == PlateauStart(Len(s))
      tp == TurnPosI(s \o s)
  IN \E k \in 1..Len(tp) : tp[k] = last
Flush1Pinned(z) == LET tp == TurnPosI(z \o z) IN \E k \in 1..Len(tp) : tp[k] = Len(z)
Flush1(s) == LET z == <<0>> \o s IN
             IF FixedJunction THEN Flush1Pinned(z) /\ EndsWithTurnOfRepeated(s) ELSE Flush1Pinned(z)
Flush2(s) == IF FixedJunction THEN EndsWithTurnOfRepeated(s) ELSE TRUE

First(s)  == HProcess(H0, <<0>> \o s, Flush1(s), FALSE)
Second(st, s) == HProcess(st, s, Flush2(s), TRUE)
TwoPass(s) == Second(First(s), s)

(* ======================= D: C04 ========================================== *)
Distinct2(s) == \E i, j \in 1..Len(s) : s[i] # s[j]
(* cyclic compression of repeats, reversals of the endlessly repeated sequence *)
RevSeq(s) ==
  LET n == Len(s)
      at(i) == s[Mod0(Mod0(i - 1, n) + n, n) + 1]
      RECURSIVE PrevD(_, _)
      PrevD(i, k) == IF at(i - k) # at(i) THEN at(i - k) ELSE PrevD(i, k + 1)
      RECURSIVE NextD(_, _)
      NextD(i, k) == IF at(i + k) # at(i) THEN at(i + k) ELSE NextD(i, k + 1)
      isRev(i) == at(i - 1) # at(i) /\ Sgn(at(i) - PrevD(i, 1)) * Sgn(NextD(i, 1) - at(i)) < 0
      pos == Positions(n, isRev)
  IN [k \in 1..Len(pos) |-> s[pos[k]]]
Rotate(r, k) == SubSeq(r, k, Len(r)) \o SubSeq(r, 1, k - 1)
(* four point rewriting on plain values *)
RECURSIVE FourVals(_, _)
FourVals(t, cyc) ==
  LET Q == {i \in 1..(Len(t) - 3) : Abs(t[i+1] - t[i+2]) <= Abs(t[i] - t[i+1]) /\ Abs(t[i+1] - t[i+2]) <= Abs(t[i+2] - t[i+3])}
  IN IF Q = {} THEN [res |-> t, cyc |-> cyc]
     ELSE LET i == CHOOSE i \in Q : \A j \in Q : i <= j
          IN FourVals(SubSeq(t, 1, i) \o SubSeq(t, i + 3, Len(t)), Append(cyc, <<Min2(t[i+1], t[i+2]), Max2(t[i+1], t[i+2])>>))
Periodic(s) ==     \* sequence of <<min, max>> pairs; compare as bag
  LET r == RevSeq(s)
      k == CHOOSE k \in 1..Len(r) : \A j \in 1..Len(r) : Abs(r[j]) <= Abs(r[k])
      rr == Rotate(r, k) \o <<r[k]>>
      f == FourVals(rr, <<>>)
  IN f.cyc \o <<<<SeqMin(r), SeqMax(r)>>>>

SecondPassPairs(st) == LET rr == SelectSeq(st.rows, LAMBDA w : w.run = 2) IN [k \in 1..Len(rr) |-> <<rr[k].lmin, rr[k].lmax>>]
C04_SecondPass(s, st) ==
  /\ BagOf(SecondPassPairs(st)) = BagOf(Periodic(s))
  /\ \A k \in 1..Len(st.rows) : st.rows[k].run = 2 => st.rows[k].closed
C04_Memory3(st) ==
  \A k \in 1..Len(st.rows) : ~st.rows[k].closed =>
     /\ st.rows[k].run = 1 /\ st.rows[k].lmin = -st.rows[k].lmax
     /\ st.rows[k].smin = -st.rows[k].smax /\ st.rows[k].emin = -st.rows[k].emax
=============================================================================

SPECIFICATION Spec
CONSTANTS
  LawId = "table"
  LawTable <- TableFromFile
  FixedJunction = TRUE
INVARIANT Report

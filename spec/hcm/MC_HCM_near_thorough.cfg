SPECIFICATION Spec
CONSTANTS
  Vals <- NearH
  OnlyReversals = TRUE
  MaxLen = 7
  Scale = 1
  LawId = "lin"
  LawTable <- EmptyTable
  FixedJunction = TRUE
INVARIANT SecondPassIsSteadyState
INVARIANT Memory3OnlyFirstPassSymmetric
INVARIANT Counters
INVARIANT RunsOrdered
INVARIANT ExtremesBracket

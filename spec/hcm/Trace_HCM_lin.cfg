SPECIFICATION Spec
CONSTANTS
  LawId = "lin"
  FixedJunction = TRUE
INVARIANT Report

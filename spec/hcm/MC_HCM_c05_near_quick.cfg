SPECIFICATION Spec
CONSTANTS
  Vals <- NearH
  OnlyReversals = TRUE
  MaxLen = 5
  Scale = 1
  LawId = "lin"
  LawTable <- EmptyTable
  FixedJunction = TRUE
INVARIANT Counters
INVARIANT RunsOrdered
INVARIANT ExtremesBracket
INVARIANT ExtremesAreMinMax
INVARIANT ScaleInvariantDecisions
INVARIANT NegateMirrors
INVARIANT RowsOrdered
INVARIANT Memory3OnlyFirstPassSymmetric

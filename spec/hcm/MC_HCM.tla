------------------------------- MODULE MC_HCM -------------------------------
(* Every load sequence over Vals with up to MaxLen samples through            *)
(* process_hcm_first; process_hcm_second.  Each state is one sequence; the    *)
(* state carries the complete final detector state (rows, strain list, ...)   *)
(* so that a dump is a table  sequence -> expected recorder content.          *)
EXTENDS HCMNL, TLC
CONSTANTS Vals, MaxLen, Scale
Sym2 == -2..2
Sym3 == -3..3
Pos3 == -1..3
Pos4 == -2..4
VARIABLES s, out, per
vars == <<s, out, per>>
Scaled(q) == [i \in 1..Len(q) |-> Scale * q[i]]
Init == s = <<>> /\ out = H0 /\ per = <<>>
Next == /\ Len(s) < MaxLen
        /\ \E v \in Vals : /\ s' = Append(s, v)
                           /\ out' = IF Distinct2(s') THEN TwoPass(Scaled(s')) ELSE H0
                           /\ per' = IF Distinct2(s') THEN Periodic(Scaled(s')) ELSE <<>>
Spec == Init /\ [][Next]_vars

SecondPassIsSteadyState == Distinct2(s) => C04_SecondPass(Scaled(s), out)
Memory3OnlyFirstPassSymmetric == C04_Memory3(out)
(* structural invariants of the counting state *)
Counters == Distinct2(s) => /\ out.iz = Len(out.res) /\ out.ir >= 1 /\ out.ir <= out.iz + 1
                            /\ out.nfirst <= Len(out.strains)
                            /\ \A k \in 1..Len(out.res) : Abs(out.res[k].L) <= out.mx
RunsOrdered == \A i, j \in 1..Len(out.rows) : i < j => out.rows[i].run <= out.rows[j].run
ExtremesBracket == \A k \in 1..Len(out.rows) : out.rows[k].eminLF <= 0 /\ out.rows[k].emaxLF >= 0
=============================================================================

------------------------------- MODULE MC_HCM -------------------------------
(* Every load sequence over Vals with up to MaxLen samples through            *)
(* process_hcm_first; process_hcm_second.  Each state is one sequence; the    *)
(* state carries the complete final detector state (rows, strain list, ...)   *)
(* so that a dump is a table  sequence -> expected recorder content.          *)
EXTENDS HCMNL, TLC
CONSTANTS Vals, MaxLen, Scale,
          OnlyReversals     \* TRUE: strictly alternating sequences only (every interior sample a reversal): longer sequences over a larger alphabet at the same cost
Sym2 == -2..2
Sym3 == -3..3
Pos3 == -1..3
Pos4 == -2..4
(* loads whose ranges and extremes differ by one or two counts at 2^24: different numbers that agree in their first seven digits (far inside a relative
   comparison tolerance such as numpy.isclose's 1e-5, far outside the detector's absolute 1e-12), at a magnitude where x - 1e-12 = x in double precision *)
NearH == {-16777217, -16777216, 0, 3, 16777216, 16777218}
VARIABLES s, out, per
vars == <<s, out, per>>
Scaled(q) == [i \in 1..Len(q) |-> Scale * q[i]]
Alternates(f, v) == IF Len(f) = 0 THEN TRUE
                    ELSE IF Len(f) = 1 THEN v # f[1]
                    ELSE Sgn(f[Len(f)] - f[Len(f) - 1]) * Sgn(v - f[Len(f)]) < 0
Init == s = <<>> /\ out = H0 /\ per = <<>>
Next == /\ Len(s) < MaxLen
        /\ \E v \in Vals : /\ OnlyReversals => Alternates(s, v)
                           /\ s' = Append(s, v)
                           /\ out' = IF Distinct2(s') THEN TwoPass(Scaled(s')) ELSE H0
                           /\ per' = IF Distinct2(s') THEN Periodic(Scaled(s')) ELSE <<>>
Spec == Init /\ [][Next]_vars

SecondPassIsSteadyState == Distinct2(s) => C04_SecondPass(Scaled(s), out)
Memory3OnlyFirstPassSymmetric == C04_Memory3(out)
(* structural invariants of the counting state *)
Counters == Distinct2(s) => /\ out.iz = Len(out.res) /\ out.ir >= 1 /\ out.ir <= out.iz + 1
                            /\ out.nfirst <= Len(out.strains)
                            /\ \A k \in 1..Len(out.res) : Abs(out.res[k].L) <= out.mx
RunsOrdered == \A i, j \in 1..Len(out.rows) : i < j => out.rows[i].run <= out.rows[j].run
ExtremesBracket == \A k \in 1..Len(out.rows) : out.rows[k].eminLF <= 0 /\ out.rows[k].emaxLF >= 0
(* ---- C05 model theorems ---- *)
(* D for the running extremes: plain minimum / maximum over zero and every strain visited before the row was recorded *)
ExtremesAreMinMax ==
  \A k \in 1..Len(out.rows) :
    LET w == out.rows[k]
        seen == {0} \cup {out.strains[i] : i \in 1..w.nvis}
    IN /\ w.eminLF = CHOOSE x \in seen : \A y \in seen : x <= y
       /\ w.emaxLF = CHOOSE x \in seen : \A y \in seen : x >= y
Flags(rows) == [k \in 1..Len(rows) |-> <<rows[k].closed, rows[k].zero, rows[k].run>>]
(* decisions depend only on load ratios: a proportional history has the same flags / pass numbers, loads scaled *)
ScaleInvariantDecisions ==
  Distinct2(s) => LET o2 == TwoPass(Scaled([i \in 1..Len(s) |-> 3 * s[i]]))
                  IN /\ Flags(o2.rows) = Flags(out.rows)
                     /\ \A k \in 1..Len(out.rows) : o2.rows[k].lmin = 3 * out.rows[k].lmin /\ o2.rows[k].lmax = 3 * out.rows[k].lmax
(* negating the loads mirrors all stresses and strains *)
NegateMirrors ==
  Distinct2(s) => LET o2 == TwoPass(Scaled([i \in 1..Len(s) |-> -s[i]]))
                  IN /\ Flags(o2.rows) = Flags(out.rows)
                     /\ \A k \in 1..Len(out.rows) :
                          LET a == out.rows[k]  b == o2.rows[k] IN
                          /\ b.lmin = -a.lmax /\ b.lmax = -a.lmin /\ b.smin = -a.smax /\ b.smax = -a.smin
                          /\ b.emin = -a.emax /\ b.emax = -a.emin /\ b.eminLF = -a.emaxLF /\ b.emaxLF = -a.eminLF
                     /\ o2.strains = [i \in 1..Len(out.strains) |-> -out.strains[i]]
(* every recorded hysteresis has min <= max in every column; closed rows are spanned by two visited points *)
RowsOrdered == \A k \in 1..Len(out.rows) : LET w == out.rows[k] IN w.lmin <= w.lmax /\ w.smin <= w.smax /\ w.emin <= w.emax
=============================================================================

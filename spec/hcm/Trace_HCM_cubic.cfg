SPECIFICATION Spec
CONSTANTS
  LawId = "cubic"
  FixedJunction = TRUE
INVARIANT Report

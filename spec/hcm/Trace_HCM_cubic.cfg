SPECIFICATION Spec
CONSTANTS
  LawId = "cubic"
  LawTable <- EmptyTable
  FixedJunction = TRUE
INVARIANT Report

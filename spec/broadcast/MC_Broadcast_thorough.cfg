SPECIFICATION Spec
CONSTANTS
  MaxRows = 3
INVARIANT EveryRowHasItsOriginal
INVARIANT EveryOriginalRowAppears
INVARIANT DisjointIsCrossProduct
INVARIANT CacheIsIdentity

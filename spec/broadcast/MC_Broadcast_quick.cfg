SPECIFICATION Spec
CONSTANTS
  MaxRows = 2
INVARIANT EveryRowHasItsOriginal
INVARIANT EveryOriginalRowAppears
INVARIANT DisjointIsCrossProduct
INVARIANT CacheIsIdentity

---------------------------- MODULE MC_Broadcast ----------------------------
EXTENDS Broadcast, TLC
CONSTANTS MaxRows
VARIABLES o, p, out
vars == <<o, p, out>>
ObjLevels == {<<"x">>, <<"x", "y">>, <<"y", "x">>, <<"x", "y", "z">>, <<"x", "n1">>}
PrmLevels == {<<"x">>, <<"y">>, <<"z">>, <<"n2">>, <<"x", "y">>, <<"y", "x">>, <<"y", "z">>, <<"z", "x">>, <<"z", "w">>, <<"z", "y", "x">>}
Vals == {1, 2}          \* level values: may coincide with the integer codes 0/1 used by the recoding (positions coincide)
KeySeqs(n) == UNION {[1..r -> [1..n -> Vals]] : r \in 1..MaxRows}
Operands(L) == {[levels |-> lv, keys |-> ks] : lv \in L, ks \in UNION {KeySeqs(n) : n \in 1..3}}
Valid(a) == UniqueKeys(a) /\ \A i \in 1..Len(a.keys) : Len(a.keys[i]) = Len(a.levels)
Init == /\ o \in {a \in Operands(ObjLevels) : Valid(a)}
        /\ p \in {a \in Operands(PrmLevels) : Valid(a)}
        /\ InDomain(o, p)
        /\ out = Result(o, p)
Next == UNCHANGED vars
Spec == Init /\ [][Next]_vars

(* model theorems about D *)
EveryRowHasItsOriginal == \A r \in out : (LevelSet(o) # LevelSet(p)) => (r[2] # 0 /\ r[3] # 0)
EveryOriginalRowAppears ==
  /\ \A i \in 1..Len(o.keys) : \E r \in out : r[2] = i
  /\ \A j \in 1..Len(p.keys) : \E r \in out : r[3] = j
DisjointIsCrossProduct == Shared(o, p) = {} => Cardinality(out) = Len(o.keys) * Len(p.keys)
CacheIsIdentity == RecodeRestoreIdentity(o, p)
=============================================================================

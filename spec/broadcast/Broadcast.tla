------------------------------ MODULE Broadcast ------------------------------
(***************************************************************************)
(* core/broadcaster.py : Broadcaster.broadcast(parameter) for pandas         *)
(* operands with (Multi)Index.                                               *)
(* An operand is [levels : sequence of level ids, keys : sequence of key     *)
(* tuples (one value per level)].  Row i of an operand carries the value     *)
(* "row i" (the harness fills in distinguishable numbers).  Unnamed levels   *)
(* are level ids starting with "n" -- each unnamed level is its own name     *)
(* (the code replaces None by a fresh uuid) and is reported as None again.   *)
(*                                                                           *)
(* D: the result index is the join of the key tuples on the shared levels    *)
(*    (cross product when no level is shared; union with missing partners    *)
(*    when the level sets are equal), its level order is the object's levels *)
(*    followed by the parameter's remaining levels, and each result row      *)
(*    points back to the original row that holds its key (0 = no such row).  *)
(* I (partial): the temporary integer recoding of index levels               *)
(*    (_IndexLevelCache) -- recode then restore is the identity on keys even *)
(*    when positions and keys coincide.                                      *)
(***************************************************************************)
EXTENDS Integers, Sequences, FiniteSets, SeqX

Shared(o, p) == {o.levels[i] : i \in 1..Len(o.levels)} \cap {p.levels[i] : i \in 1..Len(p.levels)}
LevelSet(a) == {a.levels[i] : i \in 1..Len(a.levels)}
TotalLevels(o, p) == o.levels \o SelectSeq(p.levels, LAMBDA l : l \notin LevelSet(o))
PosOf(levels, l) == CHOOSE i \in 1..Len(levels) : levels[i] = l
(* restriction of a combined key (over total levels) to an operand's levels, in the operand's level order *)
Restrict(key, total, a) == [i \in 1..Len(a.levels) |-> key[PosOf(total, a.levels[i])]]
RowOf(a, k) == LET R == {i \in 1..Len(a.keys) : a.keys[i] = k} IN IF R = {} THEN 0 ELSE CHOOSE i \in R : TRUE
Project(a, S) == {[l \in S |-> a.keys[i][PosOf(a.levels, l)]] : i \in 1..Len(a.keys)}

(* domain of C13: equal level sets, disjoint, or contained/overlapping with identical projections on the shared levels *)
InDomain(o, p) ==
  LET S == Shared(o, p) IN
  \/ S = {}
  \/ LevelSet(o) = LevelSet(p)
  \/ Project(o, S) = Project(p, S)
UniqueKeys(a) == \A i, j \in 1..Len(a.keys) : i # j => a.keys[i] # a.keys[j]

(* all combined keys over the total levels with values drawn from the operands *)
Combined(o, p) ==
  LET total == TotalLevels(o, p)
      vals(l) == IF l \in LevelSet(o) /\ l \in LevelSet(p)
                 THEN {o.keys[i][PosOf(o.levels, l)] : i \in 1..Len(o.keys)} \cup {p.keys[i][PosOf(p.levels, l)] : i \in 1..Len(p.keys)}
                 ELSE IF l \in LevelSet(o) THEN {o.keys[i][PosOf(o.levels, l)] : i \in 1..Len(o.keys)}
                 ELSE {p.keys[i][PosOf(p.levels, l)] : i \in 1..Len(p.keys)}
  IN {k \in [1..Len(total) -> UNION {vals(total[i]) : i \in 1..Len(total)}] : \A i \in 1..Len(total) : k[i] \in vals(total[i])}
ResultKeys(o, p) ==
  LET total == TotalLevels(o, p)
      eq == LevelSet(o) = LevelSet(p)
  IN {k \in Combined(o, p) :
        LET ro == RowOf(o, Restrict(k, total, o))  rp == RowOf(p, Restrict(k, total, p))
        IN IF eq THEN ro # 0 \/ rp # 0 ELSE ro # 0 /\ rp # 0}
(* the result as a set of <<key, object row, parameter row>> *)
Result(o, p) == LET total == TotalLevels(o, p) IN
  {<<k, RowOf(o, Restrict(k, total, o)), RowOf(p, Restrict(k, total, p))>> : k \in ResultKeys(o, p)}

(* ---- I: _IndexLevelCache ---- *)
LevelValues(o, p, l) ==      \* obj_level.append(operand_level).unique(): first occurrence order
  LET so == IF l \in LevelSet(o) THEN [i \in 1..Len(o.keys) |-> o.keys[i][PosOf(o.levels, l)]] ELSE <<>>
      sp == IF l \in LevelSet(p) THEN [i \in 1..Len(p.keys) |-> p.keys[i][PosOf(p.levels, l)]] ELSE <<>>
      all == so \o sp
  IN SelectSeq([i \in 1..Len(all) |-> <<i, all[i]>>], LAMBDA e : \A j \in 1..(e[1] - 1) : all[j] # e[2])
Code(o, p, l, v) == LET lv == LevelValues(o, p, l) IN (CHOOSE i \in 1..Len(lv) : lv[i][2] = v) - 1      \* get_indexer_for
Decode(o, p, l, c) == LevelValues(o, p, l)[c + 1][2]
RecodeRestoreIdentity(o, p) ==
  \A a \in {o, p} : \A i \in 1..Len(a.keys) : \A j \in 1..Len(a.levels) :
     Decode(o, p, a.levels[j], Code(o, p, a.levels[j], a.keys[i][j])) = a.keys[i][j]
=============================================================================

-------------------------------- MODULE Miner --------------------------------
(***************************************************************************)
(* strength/miner.py, solidity.py, fatigue.py (damage) on the log2 lattice. *)
(* Curve: SD = 2^a, ND = 2^b, slope k1; rule in {"original","elementary",    *)
(* "haibach"} fixes k2 = Inf, k1, 2 k1 - 1.  A collective is a sequence of    *)
(* classes <<x, n>>: amplitude 2^x (x strictly ascending), n cycles (may be   *)
(* 0: empty classes at the top, bottom, in between are the point).            *)
(* Damage of a class = n / N(2^x) = n * 2^(-NExp); sums are kept exact as     *)
(* integer numerators over 2^Scale.                                           *)
(***************************************************************************)
EXTENDS Integers, Sequences, FiniteSets, SeqX
CONSTANT ReferenceOnK1Line    \* TRUE: N(S_ref) of the Gassner cycles is read from the k_1 line also below the endurance limit (repaired code); FALSE: from the curve's own branch (pinned)
CONSTANT OccupiedReference    \* TRUE: Gassner reference amplitude = largest OCCUPIED class (repaired code); FALSE: largest class (pinned)
Inf == 1000000
Scale == 35        \* instances keep every finite cycle exponent within 8..35 so that sums stay below 2^31
Pow2(e) == 2 ^ e

K2(k1, rule) == CASE rule = "original" -> Inf [] rule = "elementary" -> k1 [] rule = "haibach" -> 2 * k1 - 1
NExp(c, rule, x) ==        \* exponent of the allowable cycles at amplitude 2^x
  LET k == IF x < c.a THEN K2(c.k1, rule) ELSE c.k1
  IN IF k = Inf THEN Inf ELSE c.b - k * (x - c.a)

(* Fatigue.damage: per class n / N ; numerator over 2^Scale *)
ClassDamage(c, rule, cl) == LET e == NExp(c, rule, cl[1]) IN IF e = Inf \/ cl[2] = 0 THEN 0 ELSE cl[2] * Pow2(Scale - e)
RECURSIVE Damage(_, _, _)
Damage(c, rule, coll) == IF coll = <<>> THEN 0 ELSE ClassDamage(c, rule, Head(coll)) + Damage(c, rule, Tail(coll))

Total(coll) == SumSeq([i \in 1..Len(coll) |-> coll[i][2]])
MaxAll(coll) == coll[Len(coll)][1]                                   \* amplitude.max(): the largest class, occupied or not
MaxOcc(coll) == LET O == {i \in 1..Len(coll) : coll[i][2] > 0} IN coll[CHOOSE i \in O : \A j \in O : j <= i][1]
RefX(coll) == IF OccupiedReference THEN MaxOcc(coll) ELSE MaxAll(coll)

(* Gassner: damage sum obtained when the collective is applied for gassner_cycles = N(S_ref) * lifetime_multiple.
   Elementary: A = 1 / V, V = sum h_i (S_i / S_maxocc)^k / sum h (solidity.haibach uses the largest occupied class).
   The damage under the elementary rule then is exactly 2^(k (maxocc - ref)) (see DESIGN 5 C11 for the algebra). *)
GassnerElementaryDamageExp(c, coll) == c.k1 * (MaxOcc(coll) - RefX(coll))
(* Haibach: A is formed with s = S / S_ref for the SAME reference as N(S_ref); it cancels iff N(S_ref) lies on the k1 branch *)
GassnerHaibachDamageExp(c, coll) ==
  LET r == RefX(coll) IN IF ReferenceOnK1Line \/ r >= c.a THEN 0 ELSE (c.k1 - 1) * (c.a - r)      \* reference below the endurance limit: (SD/S_ref)^(k1-1)
=============================================================================

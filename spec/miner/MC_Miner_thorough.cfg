SPECIFICATION Spec
CONSTANTS
  ReferenceOnK1Line = TRUE
  OccupiedReference = TRUE
  K1s = {2, 3}
  Counts = {0, 1, 3}
  NClasses = 4
  Shifts <- ShiftsAll
INVARIANT Additive
INVARIANT Proportional
INVARIANT OrderIndependent
INVARIANT RuleOrder
INVARIANT GassnerElementaryIsOne
INVARIANT GassnerHaibachIsOne

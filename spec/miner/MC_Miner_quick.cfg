SPECIFICATION Spec
CONSTANTS
  ReferenceOnK1Line = TRUE
  OccupiedReference = TRUE
  K1s = {2, 3}
  Counts = {0, 1, 2, 5}
  NClasses = 3
  Shifts <- ShiftsAll
INVARIANT Additive
INVARIANT Proportional
INVARIANT OrderIndependent
INVARIANT RuleOrder
INVARIANT GassnerElementaryIsOne
INVARIANT GassnerHaibachIsOne

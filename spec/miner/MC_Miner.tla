------------------------------ MODULE MC_Miner ------------------------------
EXTENDS Miner, TLC
CONSTANTS K1s, Counts, NClasses, Shifts
ShiftsMC == {-1, 0, 1, 3}
ShiftsLow == {-3, -2}
ShiftsAll == ShiftsMC \cup ShiftsLow     \* incl. collectives that lie entirely below the endurance limit
VARIABLES c, coll, out
vars == <<c, coll, out>>
Curve(k) == [k1 |-> k, a |-> 4, b |-> 20]
(* class amplitudes 2^(2+s) .. 2^(1+NClasses+s): around SD = 2^4 for shifts -1..1 *)
Colls == {[i \in 1..NClasses |-> <<1 + i + s, n[i]>>] : n \in [1..NClasses -> Counts], s \in Shifts}
Out(cc, q) == [d_orig |-> Damage(cc, "original", q), d_haib |-> Damage(cc, "haibach", q), d_elem |-> Damage(cc, "elementary", q),
               per_class_elem |-> [i \in 1..Len(q) |-> ClassDamage(cc, "elementary", q[i])],
               gassner_elem |-> GassnerElementaryDamageExp(cc, q), gassner_haib |-> GassnerHaibachDamageExp(cc, q),
               maxocc |-> MaxOcc(q)]
Init == /\ c \in {Curve(k) : k \in K1s} /\ coll \in {q \in Colls : Total(q) > 0}
        /\ (coll[1][1] < 1 => c.k1 = 2)          \* the lowest load levels only with k_1 = 2: cycle exponents stay within Scale (32-bit sums)
        /\ out = Out(c, coll)
Next == UNCHANGED vars
Spec == Init /\ [][Next]_vars

Rules == {"original", "elementary", "haibach"}
Additive == \A r \in Rules : \A i \in 1..(Len(coll) - 1) :
              Damage(c, r, coll) = Damage(c, r, SubSeq(coll, 1, i)) + Damage(c, r, SubSeq(coll, i + 1, Len(coll)))
Proportional == \A r \in Rules : Damage(c, r, [i \in 1..Len(coll) |-> <<coll[i][1], 3 * coll[i][2]>>]) = 3 * Damage(c, r, coll)
OrderIndependent == \A r \in Rules : Damage(c, r, [i \in 1..Len(coll) |-> coll[Len(coll) + 1 - i]]) = Damage(c, r, coll)
RuleOrder == out.d_orig <= out.d_haib /\ out.d_haib <= out.d_elem
GassnerElementaryIsOne == out.gassner_elem = 0
GassnerHaibachIsOne == (ReferenceOnK1Line \/ MaxOcc(coll) >= c.a) => out.gassner_haib = 0
=============================================================================

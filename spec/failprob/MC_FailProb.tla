----------------------------- MODULE MC_FailProb -----------------------------
EXTENDS FailProb, TLC
CONSTANTS DMax
VARIABLES s50, k, d, t, zoom, z
vars == <<s50, k, d, t, zoom, z>>
Zooms(c) == {Step(c), 100 * Step(c), 100000 * Step(c)}                        \* all log-distances (median ratio and both scatters) divided by zoom: the probit is a ratio of log-distances and cannot change
S50s == {30, 40, 50}                     \* log10 of the strength median: 1.5, 2, 2.5 decades
FarPos == {20, 24, 28, 32, 35, 40, 48, 56}      \* medians up to 2.8 decades apart: probits beyond +-7 (probabilities below 1e-12 / above 1 - 1e-12) for every triple
Far == FarPos \cup {-x : x \in FarPos}
Init == /\ s50 \in S50s /\ t \in Triples /\ zoom \in Zooms(t[3])
        /\ k \in ((-DMax)..DMax) \cup (IF s50 = 40 THEN Far ELSE {})
        /\ d = k * Step(t[3]) /\ z = Z(d, t[3])
Next == UNCHANGED vars
Spec == Init /\ [][Next]_vars

RootIsExact == IsTriple(t)
ZoomInvariant == \A f \in {2, 3, 7} : Norm(5 * d * f, t[3] * f) = z           \* (d/f) / (c/f) for any common divisor f of the log-distances
(* only the ratio of the medians matters *)
OnlyTheRatioOfMediansCounts == \A s2 \in S50s : Z((s2 + d) - s2, t[3]) = z
(* increases with the load median, decreases with the strength median *)
IncreasesWithLoadMedian == RLt(z, Z(d + 1, t[3]))
DecreasesWithStrengthMedian == RLt(Z(d - 1, t[3]), z)        \* strength median one step up = d one step down
(* mirror: exchanging the roles gives the complementary probability: probit changes sign *)
MirrorIsComplement == Z(-d, t[3]) = <<-z[1], z[2]>>
(* more scatter pulls the probit towards 0 (the probability towards 1/2) *)
ScatterFlattens == \A t2 \in Triples : (t2[3] > t[3] /\ ~Slender(t) /\ ~Slender(t2)) =>
                      (IF d > 0 THEN RLt(Z(d, t2[3]), z) ELSE IF d < 0 THEN RLt(z, Z(d, t2[3])) ELSE Z(d, t2[3]) = z)
(* vanishing load scatter: the deterministic-load value is the a = 0 member of the family *)
DeterministicIsLimit == t[1] = 0 => z = Norm(5 * d, t[2])
=============================================================================

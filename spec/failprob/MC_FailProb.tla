----------------------------- MODULE MC_FailProb -----------------------------
EXTENDS FailProb, TLC
CONSTANTS DMax
VARIABLES s50, d, t, zoom, z
vars == <<s50, d, t, zoom, z>>
Zooms == {1, 100}                        \* all log-distances (median ratio and both scatters) divided by zoom: the probit is a ratio of log-distances and cannot change
S50s == {30, 40, 50}                     \* log10 of the strength median: 1.5, 2, 2.5 decades
Init == /\ s50 \in S50s /\ d \in (-DMax)..DMax /\ t \in Triples /\ zoom \in Zooms /\ z = Z(d, t[3])
Next == UNCHANGED vars
Spec == Init /\ [][Next]_vars

RootIsExact == IsTriple(t)
ZoomInvariant == Norm(5 * d * zoom, t[3] * zoom) = z           \* (d/zoom) / (c/zoom)
(* only the ratio of the medians matters *)
OnlyTheRatioOfMediansCounts == \A s2 \in S50s : Z((s2 + d) - s2, t[3]) = z
(* increases with the load median, decreases with the strength median *)
IncreasesWithLoadMedian == d < DMax => RLt(z, Z(d + 1, t[3]))
DecreasesWithStrengthMedian == d > -DMax => RLt(Z(d - 1, t[3]), z)        \* strength median one step up = d one step down
(* mirror: exchanging the roles gives the complementary probability: probit changes sign *)
MirrorIsComplement == Z(-d, t[3]) = <<-z[1], z[2]>>
(* more scatter pulls the probit towards 0 (the probability towards 1/2) *)
ScatterFlattens == \A t2 \in Triples : t2[3] > t[3] =>
                      (IF d > 0 THEN RLt(Z(d, t2[3]), z) ELSE IF d < 0 THEN RLt(z, Z(d, t2[3])) ELSE Z(d, t2[3]) = z)
(* vanishing load scatter: the deterministic-load value is the a = 0 member of the family *)
DeterministicIsLimit == t[1] = 0 => z = Norm(5 * d, t[2])
=============================================================================

SPECIFICATION Spec
CONSTANTS
  DMax = 16
INVARIANT RootIsExact
INVARIANT ZoomInvariant
INVARIANT OnlyTheRatioOfMediansCounts
INVARIANT IncreasesWithLoadMedian
INVARIANT DecreasesWithStrengthMedian
INVARIANT MirrorIsComplement
INVARIANT ScatterFlattens
INVARIANT DeterministicIsLimit

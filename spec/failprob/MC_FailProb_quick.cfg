SPECIFICATION Spec
CONSTANTS
  DMax = 8
INVARIANT RootIsExact
INVARIANT ZoomInvariant
INVARIANT OnlyTheRatioOfMediansCounts
INVARIANT IncreasesWithLoadMedian
INVARIANT DecreasesWithStrengthMedian
INVARIANT MirrorIsComplement
INVARIANT ScatterFlattens
INVARIANT DeterministicIsLimit

SPECIFICATION Spec
CONSTANTS
  DMax = 8
INVARIANT RootIsExact
INVARIANT OnlyTheRatioOfMediansCounts
INVARIANT IncreasesWithLoadMedian
INVARIANT DecreasesWithStrengthMedian
INVARIANT MirrorIsComplement
INVARIANT ScatterFlattens
INVARIANT DeterministicIsLimit

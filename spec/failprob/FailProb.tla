------------------------------ MODULE FailProb ------------------------------
(***************************************************************************)
(* strength/failure_probability.py on a lattice where the analytic value is  *)
(* exactly representable.  Medians are given by their decadic logarithms in  *)
(* units of 1/20 decade, standard deviations in units of 1/100 decade.       *)
(* For log-normal strength (median S, std sS) and log-normal load (median L, *)
(* std sL) the failure probability is Phi(z) with                             *)
(*      z = (log10 L - log10 S) / sqrt(sL^2 + sS^2).                         *)
(* The standard deviations of a state are the legs of a Pythagorean triple   *)
(* (a, b, c), so the root is the integer c and z is a rational number:       *)
(*      z = (d/20) / (c/100) = 5 d / c.                                       *)
(* a = 0 is the deterministic load (pf_simple_load).                         *)
(***************************************************************************)
EXTENDS Integers, Rat
Z(d, c) == Norm(5 * d, c)                       \* probit of the failure probability
Triples == {<<0, 4, 4>>, <<0, 10, 10>>, <<3, 4, 5>>, <<4, 3, 5>>, <<6, 8, 10>>, <<5, 12, 13>>, <<12, 5, 13>>, <<8, 15, 17>>, <<20, 21, 29>>, <<24, 7, 25>>, <<7, 24, 25>>}
IsTriple(t) == t[1] * t[1] + t[2] * t[2] = t[3] * t[3]
=============================================================================

------------------------------ MODULE FailProb ------------------------------
(***************************************************************************)
(* strength/failure_probability.py on a lattice where the analytic value is  *)
(* exactly representable.  Medians are given by their decadic logarithms in  *)
(* units of 1/20 decade, standard deviations in units of 1/100 decade.       *)
(* For log-normal strength (median S, std sS) and log-normal load (median L, *)
(* std sL) the failure probability is Phi(z) with                             *)
(*      z = (log10 L - log10 S) / sqrt(sL^2 + sS^2).                         *)
(* The standard deviations of a state are the legs of a Pythagorean triple   *)
(* (a, b, c), so the root is the integer c and z is a rational number:       *)
(*      z = (d/20) / (c/100) = 5 d / c.                                       *)
(* a = 0 is the deterministic load (pf_simple_load).                         *)
(* All log-distances of a state are divided by its zoom (>= Step(c)).         *)
(***************************************************************************)
EXTENDS Integers, Rat
Z(d, c) == Norm(5 * d, c)                       \* probit of the failure probability
Triples == {<<0, 4, 4>>, <<0, 10, 10>>, <<3, 4, 5>>, <<4, 3, 5>>, <<6, 8, 10>>, <<5, 12, 13>>, <<12, 5, 13>>, <<8, 15, 17>>, <<20, 21, 29>>, <<24, 7, 25>>, <<7, 24, 25>>,
            (* slender triples: one scatter 4.5, 20 and 200 times the other (whether the quadrature resolves the narrow distribution) *)
            <<40, 9, 41>>, <<9, 40, 41>>, <<840, 41, 841>>, <<41, 840, 841>>, <<80400, 401, 80401>>, <<401, 80400, 80401>>}
Slender(t) == t[3] > 40
(* a^2 + b^2 = c^2, written without the squares of the long leg and of c (TLC's integers are 32 bit) *)
IsTriple(t) == LET s == IF t[1] < t[2] THEN t[1] ELSE t[2]
                   l == IF t[1] < t[2] THEN t[2] ELSE t[1]
               IN s * s = (t[3] - l) * (t[3] + l)
(* the medians of a state lie k steps apart; a step is 1/20 decade times Step(c), so that the probit moves by about k/5 for every triple *)
Step(c) == IF c < 50 THEN 1 ELSE c \div 25
=============================================================================

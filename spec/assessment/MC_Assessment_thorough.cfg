SPECIFICATION Spec
CONSTANTS
  MaxDepth = 4
  Ratios = {1, 2, 3, 4, 5}
  Refinements = {1, 2, 3, 4, 5, 6}
INVARIANT TypeOK

------------------------------ MODULE Assessment ------------------------------
(***************************************************************************)
(* C10 as a metamorphic transition system over assessment CONFIGURATIONS.    *)
(* A configuration fixes the load sequence (base sequence + applied          *)
(* refinements), the load scale, the roughness and failure-probability       *)
(* steps, and the batch of co-assessed points around one tracked point.      *)
(* Each action carries the relation that the tracked point's observable      *)
(* result (P_RAM / P_RAJ lifetime, infinite-life verdicts) must satisfy      *)
(* between the configuration before and after it:                            *)
(*     "same"       unchanged,                                                *)
(*     "notlarger"  the lifetime does not increase (infinite may become       *)
(*                  finite, never the reverse).                               *)
(* TLC enumerates the walks (hist); the harness executes the real pipeline    *)
(* at every step and Trace_Assessment.tla decides each recorded step.         *)
(***************************************************************************)
EXTENDS Integers, Sequences, FiniteSets, SeqX
CONSTANTS MaxDepth, Ratios, Refinements
VARIABLES cfg, hist
vars == <<cfg, hist>>
Cfg0(b) == [base |-> b, refs |-> {}, scale |-> 0, rough |-> 0, pa |-> 0, others |-> <<>>, trackedFirst |-> TRUE, perPointG |-> FALSE, layout |-> "plain"]
Init == \E b \in 1..5 : cfg = Cfg0(b) /\ hist = <<>>      \* base 4: severe loading (failure within the two HCM passes); base 5: last reversal carried over into the second pass
(* how the same assessment is handed over: node ids 0..n-1 in load-step-major rows ("plain"), arbitrary unsorted node ids, rows ordered node by
   node, per-point G labelled differently from the node ids (only the ORDER of the G values is documented to count), a single-point Series
   whose index labels are not ascending (as left behind by splicing samples in with pd.concat) *)
Layouts == {"plain", "scattered_ids", "node_major", "g_labels", "spliced_index", "np_bool_flag"}     \* np_bool_flag: the per-point-maxima request given as numpy.bool_(True) instead of True
Relation(a) == CASE a \in {"AddPoint", "DropPoint", "MoveTracked", "ToggleG", "Refine", "Relayout"} -> "same"
                 [] a \in {"ScaleUp", "Roughen", "TightenPA"} -> "notlarger"
Step(a, arg, c2) == cfg' = c2 /\ hist' = Append(hist, <<a, arg, Relation(a)>>)
Next ==
  /\ Len(hist) < MaxDepth
  /\ \/ \E r \in Ratios : Len(cfg.others) < 2 /\ Step("AddPoint", r, [cfg EXCEPT !.others = Append(@, r)])
     \/ cfg.others # <<>> /\ Step("DropPoint", 0, [cfg EXCEPT !.others = FrontOf(@)])
     \/ cfg.others # <<>> /\ Step("MoveTracked", 0, [cfg EXCEPT !.trackedFirst = ~@])
     \/ cfg.others # <<>> /\ Step("ToggleG", 0, [cfg EXCEPT !.perPointG = ~@])
     \/ \E k \in Refinements \ cfg.refs : Step("Refine", k, [cfg EXCEPT !.refs = @ \cup {k}])
     \/ \E y \in Layouts \ {cfg.layout} : Step("Relayout", y, [cfg EXCEPT !.layout = y])
     \/ cfg.scale < 2 /\ Step("ScaleUp", 0, [cfg EXCEPT !.scale = @ + 1])
     \/ cfg.rough < 2 /\ Step("Roughen", 0, [cfg EXCEPT !.rough = @ + 1])
     \/ cfg.pa < 2 /\ Step("TightenPA", 0, [cfg EXCEPT !.pa = @ + 1])
Spec == Init /\ [][Next]_vars
(* structural sanity of the configuration graph *)
TypeOK == cfg.scale \in 0..2 /\ cfg.rough \in 0..2 /\ cfg.pa \in 0..2 /\ Len(cfg.others) <= 2 /\ cfg.refs \subseteq Refinements /\ cfg.layout \in Layouts
=============================================================================

--------------------------- MODULE Trace_Assessment ---------------------------
(***************************************************************************)
(* Decides recorded executions of the real assessment pipeline: a trace is   *)
(* the observation of the initial configuration followed by one event per    *)
(* action with the observation after it.  Lifetimes are logged as            *)
(* round(2^20 * log2(cycles)) ("micro-log units"), Inf for an infinite       *)
(* lifetime.  TauEq is the admissible deviation for "unchanged" (2 units =   *)
(* 1.3e-6 relative).  The first failing clause of the first failing step is  *)
(* reported.                                                                 *)
(***************************************************************************)
EXTENDS Integers, Sequences, TLC, Json, IOUtils, TLCExt
Traces == JsonDeserialize(IOEnv.TRACE_FILE).traces
Inf == 2000000000
TauEq == 2
VARIABLES tid, l, verdict
vars == <<tid, l, verdict>>
Same(x, y) == IF x = Inf \/ y = Inf THEN x = y ELSE (x - y <= TauEq /\ y - x <= TauEq)
NotLarger(new, old) == IF old = Inf THEN TRUE ELSE (new # Inf /\ new <= old + TauEq)
Clause(rel, o, n) ==
  IF rel = "same" THEN
       IF ~Same(o.ram, n.ram) THEN "P_RAM_lifetime_changed"
       ELSE IF ~Same(o.raj, n.raj) THEN "P_RAJ_lifetime_changed"
       ELSE IF o.ram_inf # n.ram_inf THEN "P_RAM_infinite_life_verdict_changed"
       ELSE IF o.raj_inf # n.raj_inf THEN "P_RAJ_infinite_life_verdict_changed"
       ELSE "ok"
  ELSE IF ~NotLarger(n.ram, o.ram) THEN "P_RAM_lifetime_increased"
       ELSE IF ~NotLarger(n.raj, o.raj) THEN "P_RAJ_lifetime_increased"
       ELSE IF o.ram_inf = FALSE /\ n.ram_inf = TRUE THEN "P_RAM_became_infinite"
       ELSE IF o.raj_inf = FALSE /\ n.raj_inf = TRUE THEN "P_RAJ_became_infinite"
       ELSE "ok"
(* the 50 % lifetime lies between the 10 % and 90 % lifetimes (logged when P_A = 0.5) *)
Between(o) == IF o.n50 = 0 THEN TRUE ELSE (o.n10 <= o.n50 + TauEq /\ o.n50 <= o.n90 + TauEq)
Init == tid \in 1..Len(Traces) /\ l = 0 /\ verdict = (IF Between(Traces[tid].start) THEN "ok" ELSE "N50_not_between_N10_and_N90")
Step == /\ verdict = "ok" /\ l < Len(Traces[tid].events)
        /\ LET e == Traces[tid].events[l + 1]
               o == IF l = 0 THEN Traces[tid].start ELSE Traces[tid].events[l].obs
           IN verdict' = (IF ~Between(e.obs) THEN "N50_not_between_N10_and_N90" ELSE Clause(e.relation, o, e.obs))
        /\ l' = l + 1 /\ UNCHANGED tid
Spec == Init /\ [][Step]_vars
Done == verdict # "ok" \/ l = Len(Traces[tid].events)
Report == Done => PrintT(<<"V", tid, l, verdict>>)
=============================================================================

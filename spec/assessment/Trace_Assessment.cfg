SPECIFICATION Spec
INVARIANT Report

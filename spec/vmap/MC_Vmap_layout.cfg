SPECIFICATION Spec
CONSTANTS
  MeshIds = {"tet", "tri2dxy", "tetzyx", "bad5"}
  GeomNames = {"A", "B"}
  Prefix <- NoPrefix
  MaxDepth = 3
  MixedTypesSupported = TRUE
  DimensionPerGeometry = TRUE
  ValuesFollowIds = TRUE
INVARIANT RoundTripMesh
INVARIANT RoundTripVariables
PROPERTY NoPartial
PROPERTY ValidMeshAccepted

--------------------------------- MODULE Vmap ---------------------------------
(***************************************************************************)
(* vmap/vmap_export.py (VMAPExport) and vmap/vmap_import.py (VMAPImport).    *)
(* The state is the content of the VMAP file plus the exporter's sticky      *)
(* dimension; every add_* call is an action with its success and failure     *)
(* branches; hist is the call history (used to replay the behaviour into the *)
(* real code).  Meshes come from a small catalogue (module constant Mesh):   *)
(* a mesh is the sequence of its frame rows <<element_id, node_id>> plus the *)
(* information whether its z coordinates vary.  Values are abstract: row r   *)
(* of a mesh carries "the values of row r" (the harness chooses the doubles).*)
(*                                                                           *)
(* I: what the code writes / reads (element order by groupby, connectivity   *)
(*    in row order, element-nodal values written in frame order but indexed  *)
(*    by element id in order of first appearance, dimension, type table).    *)
(* D: import(export(mesh)) = the mesh (rows per element in node order,       *)
(*    elements by ascending id), every variable value at the key it had in   *)
(*    the frame, failed calls leave no trace.                                *)
(***************************************************************************)
EXTENDS Integers, Sequences, FiniteSets, SeqX, TLC
CONSTANTS MeshIds, GeomNames, MaxDepth, MixedTypesSupported, DimensionPerGeometry, ValuesFollowIds
CONSTANT Prefix            \* a sequence of calls every history starts with (<<>>: none); lets deeper histories start from a file that already holds geometries

(* ---------------- the mesh catalogue (mirrored in harness/vh/drivers/c20.py) ---------------- *)
Mesh(k) ==
  CASE k = "tri2d"  -> [rows |-> <<<<1,1>>,<<1,2>>,<<1,3>>,<<2,2>>,<<2,3>>,<<2,4>>>>, z3 |-> FALSE]
    [] k = "quad2d" -> [rows |-> <<<<7,4>>,<<7,3>>,<<7,2>>,<<7,1>>>>, z3 |-> FALSE]
    [] k = "tet"    -> [rows |-> <<<<30,9>>,<<30,7>>,<<30,5>>,<<30,3>>,<<10,7>>,<<10,5>>,<<10,3>>,<<10,1>>>>, z3 |-> TRUE]      \* ids with gaps, descending element order
    [] k = "tetmix" -> [rows |-> <<<<1,1>>,<<2,2>>,<<1,2>>,<<2,3>>,<<1,3>>,<<2,4>>,<<1,4>>,<<2,5>>>>, z3 |-> TRUE]              \* rows of the two elements interleaved
    [] k = "mixed"  -> [rows |-> <<<<1,1>>,<<1,2>>,<<1,3>>,<<1,4>>,<<2,1>>,<<2,2>>,<<2,3>>,<<2,5>>,<<2,6>>,<<2,7>>>>, z3 |-> TRUE]  \* tet4 + wedge6
    [] k = "mix3"   -> [rows |-> <<<<1,1>>,<<1,2>>,<<1,3>>,<<1,4>>,<<1,5>>,<<1,6>>, <<2,1>>,<<2,2>>,<<2,3>>,<<2,7>>,
                                   <<3,1>>,<<3,2>>,<<3,3>>,<<3,4>>,<<3,5>>,<<3,6>>,<<3,8>>,<<3,9>>>>, z3 |-> TRUE]                  \* wedge6 (lowest id) + tet4 + hex8: the first element has the MEAN node count
    [] k = "thin10" -> [rows |-> <<<<5,1>>,<<5,2>>,<<5,3>>,<<5,4>>,<<5,5>>,<<5,6>>,<<5,7>>,<<5,8>>,<<5,9>>,<<5,10>>>>, z3 |-> TRUE]  \* tet10 whose z extent is tiny compared with |z| (z in [1000, 1000.004])
    [] k = "tri2dxy" -> [rows |-> <<<<3,11>>,<<3,12>>,<<3,13>>,<<4,12>>,<<4,13>>,<<4,14>>>>, z3 |-> FALSE]       \* 2-D mesh whose frame has no z column at all (the frame layout is not part of the abstract state: coordinates are named, not positional)
    [] k = "tetzyx" -> [rows |-> <<<<8,21>>,<<8,22>>,<<8,23>>,<<8,24>>>>, z3 |-> TRUE]                                  \* tet4 whose frame stores the coordinate columns in the order z, y, x between variable columns
    [] k = "bigid"  -> [rows |-> <<<<2000000001,1>>,<<2000000001,2>>,<<2000000001,3>>,<<2000000001,4>>>>, z3 |-> TRUE]          \* stands for element id 3000000000 (outside int32; TLC integers are 32 bit)
    [] k = "bad5"   -> [rows |-> <<<<1,1>>,<<1,2>>,<<1,3>>,<<1,4>>,<<1,5>>>>, z3 |-> TRUE]                                        \* no 5-node element type
Supported == {<<2,3>>, <<2,6>>, <<2,4>>, <<2,8>>, <<3,4>>, <<3,10>>, <<3,6>>, <<3,15>>, <<3,8>>, <<3,20>>}

Rows(k) == Mesh(k).rows
ElemIds(k) == {Rows(k)[i][1] : i \in 1..Len(Rows(k))}
NodeIds(k) == {Rows(k)[i][2] : i \in 1..Len(Rows(k))}
SortedSeq(S) == LET RECURSIVE Srt(_) Srt(T) == IF T = {} THEN <<>> ELSE LET m == CHOOSE x \in T : \A y \in T : x <= y IN <<m>> \o Srt(T \ {m}) IN Srt(S)
ConnOf(k, e) == LET ps == Positions(Len(Rows(k)), LAMBDA i : Rows(k)[i][1] = e) IN [j \in 1..Len(ps) |-> Rows(k)[ps[j]][2]]     \* node ids in row order
ElemAppearance(k) ==         \* element ids in order of first appearance (drop_duplicates)
  LET ps == Positions(Len(Rows(k)), LAMBDA i : \A j \in 1..(i-1) : Rows(k)[j][1] # Rows(k)[i][1]) IN [j \in 1..Len(ps) |-> Rows(k)[ps[j]][1]]

(* ---------------- exporter ---------------- *)
NewDim(dim, k) == IF Mesh(k).z3 THEN 3 ELSE (IF DimensionPerGeometry THEN 2 ELSE dim)      \* pinned: _dimension is only ever raised
GeometryOk(dim, k) ==
  LET d == NewDim(dim, k)
      sizes == {Len(ConnOf(k, e)) : e \in ElemIds(k)}
  IN /\ \A n \in sizes : <<d, n>> \in Supported
     /\ \A e \in ElemIds(k) : e <= 2000000000                    \* ids are stored as int32
     /\ (MixedTypesSupported \/ Cardinality(sizes) = 1)           \* pinned: ragged connectivity cannot be stored
ExportedGeometry(k) ==
  [mesh |-> k, points |-> SortedSeq(NodeIds(k)), elems |-> [i \in 1..Cardinality(ElemIds(k)) |-> LET e == SortedSeq(ElemIds(k))[i] IN <<e, ConnOf(k, e)>>]]
(* import: make_mesh(geometry).to_frame().index *)
ImportIndex(g) == LET RECURSIVE Cat(_) Cat(i) == IF i > Len(g.elems) THEN <<>> ELSE [j \in 1..Len(g.elems[i][2]) |-> <<g.elems[i][1], g.elems[i][2][j]>>] \o Cat(i + 1) IN Cat(1)
(* D: the mesh itself: elements ascending, each element's rows in frame order *)
MeshIndexD(k) == LET es == SortedSeq(ElemIds(k))
                     RECURSIVE Cat(_) Cat(i) == IF i > Len(es) THEN <<>> ELSE [j \in 1..Len(ConnOf(k, es[i])) |-> <<es[i], ConnOf(k, es[i])[j]>>] \o Cat(i + 1)
                 IN Cat(1)
RowOfKey(k, key) == CHOOSE i \in 1..Len(Rows(k)) : Rows(k)[i] = key /\ \A j \in 1..(i-1) : Rows(k)[j] # key

(* element-nodal variable as coded: MYGEOMETRYIDS = element ids in order of first appearance, MYVALUES = frame rows in frame order;
   the importer pairs value row r with the r-th key of  (ids in stored order) x (that element's stored connectivity) *)
ElementNodalI(k) ==
  LET ids == ElemAppearance(k)
      RECURSIVE Keys(_) Keys(i) == IF i > Len(ids) THEN <<>> ELSE [j \in 1..Len(ConnOf(k, ids[i])) |-> <<ids[i], ConnOf(k, ids[i])[j]>>] \o Keys(i + 1)
      keys == Keys(1)
  IN IF ValuesFollowIds THEN [r \in 1..Len(keys) |-> <<keys[r], RowOfKey(k, keys[r])>>]          \* repaired: values written in the order of the ids
     ELSE [r \in 1..Len(keys) |-> <<keys[r], r>>]                                              \* pinned: r-th frame row
ElementNodalD(k) == {<<Rows(k)[r], r>> : r \in 1..Len(Rows(k))}
(* nodal variable: one row per node id (ascending), value = first frame row of that node *)
NodalI(k) == LET ns == SortedSeq(NodeIds(k)) IN [i \in 1..Len(ns) |-> <<ns[i], CHOOSE r \in 1..Len(Rows(k)) : Rows(k)[r][2] = ns[i] /\ \A q \in 1..(r-1) : Rows(k)[q][2] # ns[i]>>]

(* ---------------- the state machine ---------------- *)
VARIABLES geoms, sets, vars, dim, hist, lastOk
vs == <<geoms, sets, vars, dim, hist, lastOk>>
Absent == [mesh |-> "none", points |-> <<>>, elems |-> <<>>]
Init == /\ geoms = [g \in GeomNames |-> Absent] /\ sets = [g \in GeomNames |-> <<>>] /\ vars = {} /\ dim = 2 /\ hist = <<>> /\ lastOk = TRUE

AddGeometry(g, k) ==
  /\ hist' = Append(hist, <<"add_geometry", g, k>>)
  /\ IF geoms[g].mesh # "none" THEN lastOk' = FALSE /\ UNCHANGED <<geoms, sets, vars, dim>>                   \* KeyError: already exists (before anything is touched)
     ELSE /\ dim' = NewDim(dim, k)                                                                            \* _create_points_datasets runs first
          /\ IF GeometryOk(dim, k) THEN geoms' = [geoms EXCEPT ![g] = ExportedGeometry(k)] /\ lastOk' = TRUE
             ELSE geoms' = geoms /\ lastOk' = FALSE                                                            \* VMAPExportError, group deleted
          /\ UNCHANGED <<sets, vars>>
AddSet(g, kind, k, members, name) ==            \* kind 0 = node set, 1 = element set; subset test against the mesh handed in
  /\ hist' = Append(hist, <<"add_set", g, kind, k, members, name>>)
  /\ LET universe == IF kind = 0 THEN NodeIds(k) ELSE ElemIds(k) IN
     IF ~({members[i] : i \in 1..Len(members)} \subseteq universe) \/ geoms[g].mesh = "none"
     THEN lastOk' = FALSE /\ UNCHANGED <<geoms, sets, vars, dim>>
     ELSE sets' = [sets EXCEPT ![g] = Append(@, <<kind, name, members>>)] /\ lastOk' = TRUE /\ UNCHANGED <<geoms, vars, dim>>
(* "STRESS_NOCOLS": the known variable STRESS_CAUCHY from a frame that lacks its columns (raises while the variable is being written);
   "STRESS_LC2": STRESS_CAUCHY written from explicitly named other columns of the frame (a second load case); both are stored under the name STRESS_CAUCHY *)
FileName(v) == IF v \in {"STRESS_NOCOLS", "STRESS_LC2"} THEN "STRESS_CAUCHY" ELSE v
AddVariable(st, g, v, k) ==                      \* v in {"DISPLACEMENT" (nodal), "STRESS_CAUCHY" (element nodal), "UNKNOWN" (no columns/location given),
                                                 \*        "TEMP" (name unknown to pyLife, given with explicit column names and location NODE)}
  /\ hist' = Append(hist, <<"add_variable", st, g, v, k>>)
  /\ IF geoms[g].mesh = "none" \/ (\E x \in vars : x.st = st /\ x.g = g /\ FileName(x.v) = FileName(v)) \/ v \in {"UNKNOWN", "STRESS_NOCOLS"}
     THEN lastOk' = FALSE /\ UNCHANGED <<geoms, sets, vars, dim>>
     ELSE /\ vars' = vars \cup {[st |-> st, g |-> g, v |-> v, mesh |-> k,
                                 data |-> IF v \in {"DISPLACEMENT", "TEMP"} THEN NodalI(k) ELSE ElementNodalI(k)]}
          /\ lastOk' = TRUE /\ UNCHANGED <<geoms, sets, dim>>
Next ==
  /\ Len(hist) < MaxDepth
  /\ \/ \E g \in GeomNames, k \in MeshIds : AddGeometry(g, k)
     \/ \E g \in GeomNames : \E kind \in {0, 1} : LET k == IF geoms[g].mesh = "none" THEN CHOOSE m \in MeshIds : TRUE ELSE geoms[g].mesh IN
            \E members \in {<<SortedSeq(IF kind = 0 THEN NodeIds(k) ELSE ElemIds(k))[1]>>,
                            IF kind = 0 THEN <<LastOf(SortedSeq(NodeIds(k))), SortedSeq(NodeIds(k))[1]>>
                            ELSE IF Cardinality(ElemIds(k)) >= 2 THEN <<LastOf(SortedSeq(ElemIds(k))), SortedSeq(ElemIds(k))[1]>> ELSE <<LastOf(SortedSeq(ElemIds(k)))>>,
                            <<999>>} : AddSet(g, kind, k, members, IF kind = 0 THEN "ns" ELSE "es")
     \/ \E st \in {"s1", "s2"}, g \in GeomNames, v \in {"DISPLACEMENT", "STRESS_CAUCHY", "UNKNOWN", "TEMP", "STRESS_NOCOLS", "STRESS_LC2"} :
            LET k == IF geoms[g].mesh = "none" THEN CHOOSE m \in MeshIds : TRUE ELSE geoms[g].mesh IN AddVariable(st, g, v, k)
  /\ (Len(hist) < Len(Prefix) => hist'[Len(hist) + 1] = Prefix[Len(hist) + 1])
NoPrefix == <<>>
PrefixTwo == << <<"add_geometry", "A", "tri2d">>, <<"add_geometry", "B", "quad2d">> >>
Spec == Init /\ [][Next]_vs

(* ---------------- properties ---------------- *)
RoundTripMesh == \A g \in GeomNames : geoms[g].mesh # "none" => ImportIndex(geoms[g]) = MeshIndexD(geoms[g].mesh)
RoundTripVariables == \A x \in vars : x.v \in {"STRESS_CAUCHY", "STRESS_LC2"} => {x.data[i] : i \in 1..Len(x.data)} = ElementNodalD(x.mesh)
NoPartial == [][(~lastOk') => (geoms' = geoms /\ sets' = sets /\ vars' = vars)]_vs
(* every valid mesh can be exported, whatever was exported before (history independence) *)
ValidMeshes == {"tri2d", "quad2d", "tet", "tetmix", "mixed", "mix3", "thin10", "tri2dxy", "tetzyx"}
ValidMeshAccepted == [][\A g \in GeomNames, k \in ValidMeshes \cap MeshIds :
                          (hist' = Append(hist, <<"add_geometry", g, k>>) /\ geoms[g].mesh = "none") => lastOk']_vs
=============================================================================

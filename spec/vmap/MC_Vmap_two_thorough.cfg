SPECIFICATION Spec
CONSTANTS
  MeshIds = {"tri2d", "quad2d"}
  GeomNames = {"A", "B"}
  Prefix <- PrefixTwo
  MaxDepth = 5
  MixedTypesSupported = TRUE
  DimensionPerGeometry = TRUE
  ValuesFollowIds = TRUE
INVARIANT RoundTripMesh
INVARIANT RoundTripVariables
PROPERTY NoPartial
PROPERTY ValidMeshAccepted

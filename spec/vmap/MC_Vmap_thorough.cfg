SPECIFICATION Spec
CONSTANTS
  MeshIds = {"tri2d", "quad2d", "tet", "tetmix", "mixed", "mix3", "thin10", "bad5", "bigid"}
  GeomNames = {"A", "B"}
  Prefix <- NoPrefix
  MaxDepth = 4
  MixedTypesSupported = TRUE
  DimensionPerGeometry = TRUE
  ValuesFollowIds = TRUE
INVARIANT RoundTripMesh
INVARIANT RoundTripVariables
PROPERTY NoPartial
PROPERTY ValidMeshAccepted

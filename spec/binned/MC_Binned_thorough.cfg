SPECIFICATION Spec
CONSTANTS
  Ns = {1, 2, 3, 4, 5, 7, 10, 16, 100}
  Q = 4
  Over = 3
INVARIANT ImplementationIsDefinition
INVARIANT ErrorIffAboveMax
INVARIANT NeverUnderestimates
INVARIANT LessThanOneClass
INVARIANT SignOfLoad
INVARIANT Monotone

------------------------------- MODULE Binned -------------------------------
(***************************************************************************)
(* materiallaws/notch_approximation_law.py, class Binned.                   *)
(* Lattice: the class width w = max_load / N is Q lattice units, a load is   *)
(* an integer j (in units of w/Q); the table rows are the classes 1..R with  *)
(* upper edges k*Q (R = N for the primary table, 2N for the secondary).      *)
(* I: class choice as coded (searchsorted(side='left'), "+1" row, range      *)
(*    guard);  D: least class whose upper edge is not below |load|.          *)
(* The wrapped law is abstract: the result is <<sign, class>> and the        *)
(* harness compares with sign * law(class * w).                              *)
(***************************************************************************)
EXTENDS Integers, FiniteSets, SeqX
SearchSortedLeft(R, Q, a) == Cardinality({k \in 1..R : k * Q < a})     \* number of table loads < a
(* scalar / one-table path: index = searchsorted - 1; error iff index+1 >= len; row iloc[index+1] *)
ClassScalarI(R, Q, j) ==
  LET index == SearchSortedLeft(R, Q, Abs(j)) - 1
  IN IF index + 1 >= R THEN 0 ELSE index + 2        \* 0-based row index+1  <->  class label index+2
(* per-point tables: class_index = searchsorted on the FIRST point's table; error iff class_index+1 > max class *)
ClassMultiI(R, Q, jFirst) ==
  LET ci == SearchSortedLeft(R, Q, Abs(jFirst))
  IN IF ci + 1 > R THEN 0 ELSE ci + 1
ClassD(R, Q, j) ==
  IF Abs(j) > R * Q THEN 0
  ELSE CHOOSE k \in 1..R : Abs(j) <= k * Q /\ \A m \in 1..R : Abs(j) <= m * Q => k <= m
Result(cls, j) == IF cls = 0 THEN <<"error", 0, 0>> ELSE <<"ok", Sgn(j), cls>>
=============================================================================

------------------------------ MODULE MC_Binned ------------------------------
EXTENDS Binned, TLC
CONSTANTS Ns, Q, Over
VARIABLES n, branch, j, out
vars == <<n, branch, j, out>>
Rows(nn, b) == IF b = "primary" THEN nn ELSE 2 * nn
Init == /\ n \in Ns /\ branch \in {"primary", "secondary"}
        /\ j \in (-(Rows(n, branch) * Q + Over))..(Rows(n, branch) * Q + Over)
        /\ out = Result(ClassScalarI(Rows(n, branch), Q, j), j)
Next == UNCHANGED vars
Spec == Init /\ [][Next]_vars
R == Rows(n, branch)
ImplementationIsDefinition == ClassScalarI(R, Q, j) = ClassD(R, Q, j) /\ ClassMultiI(R, Q, j) = ClassD(R, Q, j)
ErrorIffAboveMax == (out[1] = "error") <=> (Abs(j) > R * Q)
NeverUnderestimates == out[1] = "ok" => out[3] * Q >= Abs(j)
LessThanOneClass == (out[1] = "ok" /\ j # 0) => out[3] * Q - Abs(j) < Q    \* load 0 sits in class 1 but carries sign 0, i.e. is exact
SignOfLoad == out[1] = "ok" => out[2] = Sgn(j)
Monotone == \A j2 \in (-(R * Q))..(R * Q) :
              (out[1] = "ok" /\ Abs(j2) <= Abs(j)) => ClassScalarI(R, Q, j2) <= out[3]
=============================================================================

SPECIFICATION Spec
INVARIANT Report

----------------------------- MODULE Trace_Analysis -----------------------------
(***************************************************************************)
(* Decides recorded analyses: obs = the estimated curve in micro-log units   *)
(* (round(2^20 log2 x)) for SD, ND, k_1, TN, TS; Nan = 1999999999 for a value *)
(* that is not a finite positive number.  tau is the tolerance of the         *)
(* analyzer that produced the trace (closed-form estimators: 2 units =        *)
(* [tauND: the knee cycle number of the Nelder-Mead based estimators follows  *)
(*  SD with the power k_1, so its tolerance is tau times the slope]            *)
(* 1.3e-6; Nelder-Mead based ones: 160 units = 1e-4).                         *)
(***************************************************************************)
EXTENDS Integers, Sequences, TLC, Json, IOUtils, TLCExt
Traces == JsonDeserialize(IOEnv.TRACE_FILE).traces
Nan == 1999999999
Unit == 1048576            \* 2^20: one factor of two
VARIABLES tid, l, verdict
vars == <<tid, l, verdict>>
Near(x, y, tau) == IF x = Nan \/ y = Nan THEN x = y ELSE (x - y <= tau /\ y - x <= tau)
Clause(e, o, n, tau, tauND) ==
  LET dSD == IF e.action = "ScaleLoads" THEN e.arg * Unit ELSE IF e.action = "ChangeUnit" THEN e.dmicro ELSE 0        \* ChangeUnit logs the micro-log of (new factor / old factor)
      dND == IF e.action = "ScaleCycles" THEN e.arg * Unit ELSE 0
  IN IF ~Near(n.SD, IF o.SD = Nan THEN Nan ELSE o.SD + dSD, tau) THEN "SD"
     \* without run-outs SD = 0 and ND is evaluated at the artificial load 0.1: its behaviour under load scaling is not claimed
     ELSE IF ~(e.action \in {"ScaleLoads", "ChangeUnit"} /\ o.SD = Nan) /\ ~Near(n.ND, IF o.ND = Nan THEN Nan ELSE o.ND + dND, tauND) THEN "ND"
     ELSE IF ~Near(n.k_1, o.k_1, tau) THEN "k_1"
     ELSE IF ~Near(n.TN, o.TN, tau) THEN "TN"
     ELSE IF ~Near(n.TS, o.TS, tau) THEN "TS"
     ELSE "ok"
(* exact synthetic data: slope and scatters are recovered; the MLE is at least as likely as its start *)
StartClause(t) ==
  IF t.exact_slope # 0 /\ ~Near(t.start.k_1, t.exact_slope, t.tau) THEN "exact_k_1"
  ELSE IF t.exact_slope # 0 /\ t.check_scatter /\ ~(Near(t.start.TN, 0, t.tau) /\ Near(t.start.TS, 0, t.tau)) THEN "exact_scatter"
  ELSE IF t.lnL_gain_micro < -1 THEN "likelihood_below_start"
  ELSE "ok"
Init == tid \in 1..Len(Traces) /\ l = 0 /\ verdict = StartClause(Traces[tid])
Step == /\ verdict = "ok" /\ l < Len(Traces[tid].events)
        /\ LET e == Traces[tid].events[l + 1]
               o == IF l = 0 THEN Traces[tid].start ELSE Traces[tid].events[l].obs
           IN verdict' = (IF e.lnL_gain_micro < -1 THEN "likelihood_below_start" ELSE Clause(e, o, e.obs, Traces[tid].tau, Traces[tid].tauND))
        /\ l' = l + 1 /\ UNCHANGED tid
Spec == Init /\ [][Step]_vars
Done == verdict # "ok" \/ l = Len(Traces[tid].events)
Report == Done => PrintT(<<"V", tid, l, verdict>>)
=============================================================================

--------------------------------- MODULE Zones ---------------------------------
(***************************************************************************)
(* materialdata/woehler/fatigue_data.py: finite / infinite zone logic.       *)
(* A test series is a sequence of tests <<load level, fracture>> (the cycle   *)
(* numbers do not enter the zone logic).  Loads are kept doubled so that the  *)
(* "half level" transition values stay integral.                              *)
(***************************************************************************)
EXTENDS Integers, Sequences, FiniteSets, SeqX
Idx(t) == 1..Len(t)
Runouts(t) == {i \in Idx(t) : ~t[i][2]}
Fractures(t) == {i \in Idx(t) : t[i][2]}
MaxOf(S) == CHOOSE x \in S : \A y \in S : y <= x
MinOf(S) == CHOOSE x \in S : \A y \in S : x <= y
Loads(t, S) == {t[i][1] : i \in S}
MaxRunoutLoad(t) == MaxOf(Loads(t, Runouts(t)))
(* I: _calc_finite_zone / _calc_finite_zone_manual / _half_level_above_highest_runout / _guess_from_second_highest_runout *)
FiniteZone(t) == IF Runouts(t) = {} THEN Idx(t) ELSE {i \in Fractures(t) : t[i][1] > MaxRunoutLoad(t)}
InfiniteZone(t) == IF Runouts(t) = {} THEN {} ELSE {i \in Idx(t) : t[i][1] <= MaxRunoutLoad(t)}
Transition2(t) ==        \* 2 * finite_infinite_transition
  IF Runouts(t) = {} THEN 0
  ELSE IF FiniteZone(t) # {} THEN MinOf(Loads(t, FiniteZone(t))) + MaxRunoutLoad(t)
  ELSE LET U == Loads(t, Idx(t))  m1 == MaxOf(U)  m0 == IF Cardinality(U) > 1 THEN MaxOf(U \ {m1}) ELSE m1
       IN 2 * m1 + (m1 - m0)
(* irrelevant_runouts_dropped *)
PureRunoutLoads(t) == Loads(t, Runouts(t)) \ Loads(t, Fractures(t))
Kept(t) == IF Cardinality(PureRunoutLoads(t)) <= 1 THEN Idx(t)
           ELSE IF MaxOf(PureRunoutLoads(t)) < MinOf(Loads(t, Fractures(t))) THEN {i \in Idx(t) : ~(t[i][1] < MaxOf(PureRunoutLoads(t)))}
           ELSE Idx(t)
(* D: the zones partition the tests at the transition *)
Partition(t) == FiniteZone(t) \cap InfiniteZone(t) = {} /\ FiniteZone(t) \cup InfiniteZone(t) = Idx(t)
SplitAtTransition(t) ==
  Runouts(t) # {} =>
    /\ \A i \in InfiniteZone(t) : 2 * t[i][1] <= Transition2(t)
    /\ \A i \in FiniteZone(t) : 2 * t[i][1] >= Transition2(t)
=============================================================================

------------------------------- MODULE MC_Zones -------------------------------
EXTENDS Zones, TLC
CONSTANTS Levels, MinTests, MaxTests
VARIABLES t, out
vars == <<t, out>>
Valid(s) == Cardinality(Loads(s, Fractures(s))) >= 2        \* admissible data: at least two load levels with fractures
Init == /\ t \in {s \in UNION {[1..n -> Levels \X BOOLEAN] : n \in MinTests..MaxTests} : Valid(s)}
        /\ out = [finite |-> FiniteZone(t), infinite |-> InfiniteZone(t), transition2 |-> Transition2(t), kept |-> Kept(t)]
Next == UNCHANGED vars
Spec == Init /\ [][Next]_vars
ZonesPartition == Partition(t)
ZonesSplitAtTransition == SplitAtTransition(t)
Rev(s) == [i \in 1..Len(s) |-> s[Len(s) + 1 - i]]
PermutationInvariant ==
  /\ Transition2(Rev(t)) = out.transition2
  /\ {Len(t) + 1 - i : i \in FiniteZone(Rev(t))} = out.finite
  /\ {Len(t) + 1 - i : i \in Kept(Rev(t))} = out.kept
DroppedAreOnlyRunoutsBelowAllFractures == \A i \in Idx(t) \ out.kept : ~t[i][2] /\ t[i][1] < MinOf(Loads(t, Fractures(t)))
=============================================================================

----------------------------- MODULE AnalysisEquiv -----------------------------
(***************************************************************************)
(* C18 (estimators) as a metamorphic transition system.  A configuration is  *)
(* a fatigue data set of the catalogue with a load scale 2^ls, a cycle scale *)
(* 2^cs (both exact in floating point) and a row permutation.  Actions:      *)
(*   ScaleLoads(d):   SD' = 2^d SD, everything else unchanged                *)
(*   ScaleCycles(d):  ND' = 2^d ND, everything else unchanged                *)
(*   ChangeUnit(j):   the loads are expressed in another unit (a real factor,  *)
(*                    not a power of two): 1 = ksi, 2 / 3 = fractions of the   *)
(*                    finite/infinite transition load (so that the knee lies   *)
(*                    at 0.95 / at 1.0000001), 4 = an arbitrary 9-digit     *)
(*                    factor; SD scales with the factor, nothing else changes  *)
(*   Permute:         nothing changes                                        *)
(*   Distract:        another data set is analysed in between; nothing       *)
(*                    changes for the tracked one (no state carried over)    *)
(* The relation of each recorded step is decided by Trace_Analysis.tla.      *)
(***************************************************************************)
EXTENDS Integers, Sequences, SeqX
CONSTANTS Datasets, MaxDepth, LoadShifts, CycleShifts
LoadShiftsMC == {1, -2, -14, 20}        \* 2^20: the same tests with loads in Pa instead of MPa
CycleShiftsMC == {2, -1}
VARIABLES cfg, hist
vars == <<cfg, hist>>
Init == \E d \in Datasets : cfg = [ds |-> d, ls |-> 0, cs |-> 0, perm |-> 0, unit |-> 0] /\ hist = <<>>
Next ==
  /\ Len(hist) < MaxDepth
  /\ \/ \E d \in LoadShifts : cfg' = [cfg EXCEPT !.ls = @ + d] /\ hist' = Append(hist, <<"ScaleLoads", d>>)
     \/ \E d \in CycleShifts : cfg' = [cfg EXCEPT !.cs = @ + d] /\ hist' = Append(hist, <<"ScaleCycles", d>>)
     \/ \E j \in (1..4) \ {cfg.unit} : cfg' = [cfg EXCEPT !.unit = j] /\ hist' = Append(hist, <<"ChangeUnit", j>>)
     \/ cfg' = [cfg EXCEPT !.perm = @ + 1] /\ hist' = Append(hist, <<"Permute", 0>>)
     \/ cfg' = cfg /\ hist' = Append(hist, <<"Distract", 0>>)
Spec == Init /\ [][Next]_vars
TypeOK == cfg.perm \in 0..MaxDepth
=============================================================================

-------------------------------- MODULE Rossow --------------------------------
(* utils/functions.rossow_cumfreqs and the failure-probability estimate of Probit.__probit_rossow_estimation
   (exact rationals): plotting positions (3 i - 1)/(3 N + 1); per load level of the infinite zone with
   k fractures out of n tests: (3 k - 1)/(3 n + 1) when 0 < k < n (the two pure cases use 1 - 0.5^(1/n), 0.5^(1/n)). *)
EXTENDS Integers, Rat
Freq(i, N) == Norm(3 * i - 1, 3 * N + 1)
ProbitCase(k, n) == IF k = 0 THEN "no_fractures" ELSE IF k = n THEN "all_fractures" ELSE "some_fractures"
=============================================================================

SPECIFICATION Spec
CONSTANTS
  Datasets = {"exact", "exact10", "scatter", "flat", "mixed"}
  MaxDepth = 3
  LoadShifts <- LoadShiftsMC
  CycleShifts <- CycleShiftsMC
INVARIANT TypeOK

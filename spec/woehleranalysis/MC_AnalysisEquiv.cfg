SPECIFICATION Spec
CONSTANTS
  Datasets = {"exact", "scatter", "mixed"}
  MaxDepth = 3
  LoadShifts <- LoadShiftsMC
  CycleShifts <- CycleShiftsMC
INVARIANT TypeOK

------------------------------ MODULE MC_Rossow ------------------------------
EXTENDS Rossow, TLC
CONSTANT MaxN
VARIABLES N, out
vars == <<N, out>>
Init == N \in 1..MaxN /\ out = [i \in 1..N |-> Freq(i, N)]
Next == UNCHANGED vars
Spec == Init /\ [][Next]_vars
StrictlyIncreasingInsideUnitInterval == \A i \in 1..N : RLt(<<0, 1>>, out[i]) /\ RLt(out[i], <<1, 1>>) /\ (i < N => RLt(out[i], out[i+1]))
Symmetric == \A i \in 1..N : RAdd(out[i], out[N + 1 - i]) = <<1, 1>>
MedianOfOdd == (N % 2 = 1) => out[(N + 1) \div 2] = <<1, 2>>
=============================================================================

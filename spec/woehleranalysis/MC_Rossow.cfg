SPECIFICATION Spec
CONSTANTS
  MaxN = 40
INVARIANT StrictlyIncreasingInsideUnitInterval
INVARIANT Symmetric
INVARIANT MedianOfOdd

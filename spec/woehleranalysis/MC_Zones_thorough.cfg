SPECIFICATION Spec
CONSTANTS
  Levels = {1, 2, 3, 4}
  MinTests = 2
  MaxTests = 6
INVARIANT ZonesPartition
INVARIANT ZonesSplitAtTransition
INVARIANT PermutationInvariant
INVARIANT DroppedAreOnlyRunoutsBelowAllFractures

SPECIFICATION Spec
CONSTANTS
  Levels = {1, 2, 3, 4}
  MinTests = 2
  MaxTests = 5
INVARIANT ZonesPartition
INVARIANT ZonesSplitAtTransition
INVARIANT PermutationInvariant
INVARIANT DroppedAreOnlyRunoutsBelowAllFractures

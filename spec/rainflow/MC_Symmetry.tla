----------------------------- MODULE MC_Symmetry -----------------------------
(* C03 model theorems on every one-piece signal: negation, positive affine   *)
(* maps, refinement by non-reversal samples, NaN index correction.           *)
EXTENDS Rainflow, TLC
CONSTANTS Vals, MinLen, MaxLen
Sym1 == -1..1
Sym2 == -2..2
VARIABLES fed, d3, d4, dF
vars == <<fed, d3, d4, dF>>
(* the signal grows sample by sample so that TLC's workers share the enumeration; every state is one signal *)
Init == fed = <<>> /\ d3 = D0 /\ d4 = D0 /\ dF = F0
Next == /\ Len(fed) < MaxLen
        /\ \E v \in Vals : /\ fed' = Append(fed, v)
                            /\ d3' = Process34(D0, fed', 3, FALSE) /\ d4' = Process34(D0, fed', 4, FALSE)
                            /\ dF' = ProcessF(F0, fed', FALSE)
Spec == Init /\ [][Next]_vars

NegS(s) == [i \in 1..Len(s) |-> -s[i]]
Aff(s, a, b) == [i \in 1..Len(s) |-> a * s[i] + b]
MapCyc(cyc, F(_)) == [k \in 1..Len(cyc) |-> <<F(cyc[k][1]), F(cyc[k][2]), cyc[k][3], cyc[k][4]>>]
NegateSymmetric == Len(fed) >= MinLen =>
    LET n3 == Process34(D0, NegS(fed), 3, FALSE)  n4 == Process34(D0, NegS(fed), 4, FALSE)
        nF == ProcessF(F0, NegS(fed), FALSE)
    IN /\ n3.cyc = MapCyc(d3.cyc, LAMBDA x : -x) /\ n3.rv = NegS(d3.rv) /\ n3.ri = d3.ri
       /\ n4.cyc = MapCyc(d4.cyc, LAMBDA x : -x) /\ n4.rv = NegS(d4.rv) /\ n4.ri = d4.ri
       /\ nF.cyc = [k \in 1..Len(dF.cyc) |-> <<-dF.cyc[k][1], -dF.cyc[k][2]>>] /\ nF.rv = NegS(dF.rv)
AffineEquivariant == Len(fed) >= MinLen =>
    \A a \in {2, 3} : \A b \in {-3, 0, 5} :
      LET a3 == Process34(D0, Aff(fed, a, b), 3, FALSE)  a4 == Process34(D0, Aff(fed, a, b), 4, FALSE)
      IN /\ a3.cyc = MapCyc(d3.cyc, LAMBDA x : a * x + b) /\ a3.rv = Aff(d3.rv, a, b) /\ a3.ri = d3.ri
         /\ a4.cyc = MapCyc(d4.cyc, LAMBDA x : a * x + b) /\ a4.rv = Aff(d4.rv, a, b) /\ a4.ri = d4.ri
(* the FKM rule is NOT offset invariant (it compares absolute values): witnessed, not required *)
Admissible(s, p, v) ==
  \/ p = 1 /\ v = s[1]
  \/ p = Len(s) + 1 /\ v = s[Len(s)]
  \/ p > 1 /\ p <= Len(s) /\ Min2(s[p-1], s[p]) <= v /\ v <= Max2(s[p-1], s[p])
IdxMoves(s, p, v, old, new) ==
  \/ new = (IF old >= p - 1 THEN old + 1 ELSE old)
  \/ old = p - 1 /\ p <= Len(s) /\ v = s[p] /\ new = old
  \/ old = Len(s) - 1 /\ p = Len(s) + 1 /\ new = old + 1
SameUpToIdx(s, p, v, c0, c1) ==
  /\ Len(c0) = Len(c1)
  /\ \A k \in 1..Len(c0) : /\ c0[k][1] = c1[k][1] /\ c0[k][2] = c1[k][2]
                           /\ IdxMoves(s, p, v, c0[k][3], c1[k][3]) /\ IdxMoves(s, p, v, c0[k][4], c1[k][4])
RefineInvariant == Len(fed) >= MinLen =>
    \A p \in 1..(Len(fed) + 1) : \A v \in Vals :
      Admissible(fed, p, v) =>
        LET s2 == InsertAt(fed, p, v)
            r3 == Process34(D0, s2, 3, FALSE)  r4 == Process34(D0, s2, 4, FALSE)  rF == ProcessF(F0, s2, FALSE)
        IN /\ SameUpToIdx(fed, p, v, d3.cyc, r3.cyc) /\ r3.rv = d3.rv
           /\ SameUpToIdx(fed, p, v, d4.cyc, r4.cyc) /\ r4.rv = d4.rv
           /\ \A k \in 1..Len(d4.rv) : IdxMoves(fed, p, v, ResidualIndex(d4)[k], ResidualIndex(r4)[k])
           /\ \A k \in 1..Len(d3.rv) : IdxMoves(fed, p, v, ResidualIndex(d3)[k], ResidualIndex(r3)[k])
           /\ rF.cyc = dF.cyc /\ rF.rv = dF.rv
NaN == 99
NaNIndexCorrection == Len(fed) >= MinLen =>
    \A p \in 2..Len(fed) : \A q \in p..Len(fed) :
      LET s1 == InsertAt(fed, p, NaN)
          s2 == IF q = p THEN s1 ELSE InsertAt(s1, q + 1, NaN)
          np == NaNPos0(s2, NaN)
          tp == TurnPosI(CleanNaN(s2, NaN))
      IN /\ CleanNaN(s2, NaN) = fed
         /\ \A k \in 1..Len(tp) : CorrectIdx(tp[k] - 1, np) = OrigPos0(s2, NaN, tp[k] - 1)
=============================================================================

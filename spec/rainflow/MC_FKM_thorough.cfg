SPECIFICATION Spec
CONSTANTS
  Amp = 2
  MaxLen = 10
  MaxCuts = 2
INVARIANT ChunkIndependentF
INVARIANT CountersAgree
INVARIANT MaxSeenIsMaxOfTurns

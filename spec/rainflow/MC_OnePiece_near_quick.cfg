SPECIFICATION Spec
CONSTANTS
  Vals <- Near
  MinLen = 2
  OnlyReversals = TRUE
  MaxLen = 7
INVARIANT FindTurnsAgree
INVARIANT FourPointIsDefinition
INVARIANT ThreePointSameBag
INVARIANT EveryTurnOnce
INVARIANT IndexAddresses
INVARIANT FKMIsHCM
INVARIANT FKMEveryTurnOnce
INVARIANT FKMCycleBound

SPECIFICATION Spec
INVARIANT Report
INVARIANT ChunkIndependent
INVARIANT IsDefinition
INVARIANT ChunkMapHolds

SPECIFICATION Spec
INVARIANT Report

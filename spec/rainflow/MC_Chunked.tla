----------------------------- MODULE MC_Chunked -----------------------------
(***************************************************************************)
(* Every signal over Vals up to MaxLen, fed to the three detectors in every *)
(* possible sequence of consecutive non-empty chunks.  Each reachable state *)
(* is one chunked run: fed = samples so far, cuts = chunk sizes.            *)
(***************************************************************************)
EXTENDS Rainflow, TLC
CONSTANTS Vals, MaxLen, WithFlush
Sym1 == -1..1
Sym2 == -2..2
Sym3 == -3..3
Asym3 == -1..2
VARIABLES fed, cuts, d3, d4, dF
vars == <<fed, cuts, d3, d4, dF>>

Init == fed = <<>> /\ cuts = <<>> /\ d3 = D0 /\ d4 = D0 /\ dF = F0

Feed(chunk) ==
  /\ fed'  = fed \o chunk
  /\ cuts' = Append(cuts, Len(chunk))
  /\ d3' = Process34(d3, chunk, 3, FALSE)
  /\ d4' = Process34(d4, chunk, 4, FALSE)
  /\ dF' = ProcessF(dF, chunk, FALSE)

Next == \E n \in 1..(MaxLen - Len(fed)) : \E chunk \in [1..n -> Vals] : Feed(chunk)
Spec == Init /\ [][Next]_vars

One3 == Process34(D0, fed, 3, FALSE)
One4 == Process34(D0, fed, 4, FALSE)
OneF == ProcessF(F0, fed, FALSE)

(* ---------------- find_turns: numpy formulation = definition ------------ *)
FindTurnsAgree == TurnPosI(fed) = TurnPosD(fed)

(* ---------------- C01 --------------------------------------------------- *)
ChunkIndependent3 == fed # <<>> => Obs34(d3) = Obs34(One3)
ChunkIndependent4 == fed # <<>> => Obs34(d4) = Obs34(One4)
ChunkIndependentF == fed # <<>> => ObsF(dF) = ObsF(OneF)
ChunksRecorded == d3.chunks = cuts /\ d4.chunks = cuts
ChunkMap ==
  \A g \in 0..(Len(fed) - 1) :
     /\ ChunkLocalI(cuts, g) = ChunkLocalD(cuts, g)
     /\ LET cl == ChunkLocalI(cuts, g)
            st == ChunkStarts(cuts)[cl[1] + 1]
        IN cl[2] >= 0 /\ cl[2] < cuts[cl[1] + 1] /\ st + cl[2] = g
(* implementation state that is not observable but must agree with the one-piece run
   in its *meaning*: head index = number of samples, tail = suffix of fed *)
HeadAndTail ==
  /\ d3.head = Len(fed) /\ d4.head = Len(fed) /\ dF.head = Len(fed)
  /\ \A d \in {d3, d4} : d.tail = SubSeq(fed, Len(fed) - Len(d.tail) + 1, Len(fed))

(* ---------------- C02 --------------------------------------------------- *)
Def4 == FourPointDef(TurnSeq(fed), <<>>)
FourPointIsDefinition ==
  Len(fed) >= 2 =>
    /\ d4.cyc = Def4.cyc
    /\ d4.rv = [k \in 1..Len(Def4.res) |-> Def4.res[k][1]]
    /\ ResidualIndex(d4) = [k \in 1..Len(Def4.res) |-> Def4.res[k][2]]
ThreePointSameBag ==
  Len(fed) >= 2 => BagOf(d3.cyc) = BagOf(d4.cyc) /\ d3.rv = d4.rv /\ ResidualIndex(d3) = ResidualIndex(d4)
IdxBag(d) == BagOf([k \in 1..(2 * Len(d.cyc)) |-> IF k % 2 = 1 THEN d.cyc[(k + 1) \div 2][3] ELSE d.cyc[k \div 2][4]]
                   \o ResidualIndex(d))
EveryTurnOnce ==
  Len(fed) >= 2 =>
    LET ts == TurnSeq(fed)
        want == BagOf([k \in 1..Len(ts) |-> ts[k][2]])
    IN IdxBag(d3) = want /\ IdxBag(d4) = want
IndexAddresses ==
  \A d \in {d3, d4} :
    /\ \A k \in 1..Len(d.cyc) : fed[d.cyc[k][3] + 1] = d.cyc[k][1] /\ fed[d.cyc[k][4] + 1] = d.cyc[k][2]
    /\ fed # <<>> => \A k \in 1..Len(d.rv) : fed[ResidualIndex(d)[k] + 1] = d.rv[k]
FKMIsHCM == LET h == HCMDef(fed) IN dF.cyc = h.cyc /\ dF.rv = h.rv
FKMEveryTurnOnce ==
  LET tp == TurnPosD(fed)
      fl == [k \in 1..(2 * Len(dF.cyc)) |-> IF k % 2 = 1 THEN dF.cyc[(k + 1) \div 2][1] ELSE dF.cyc[k \div 2][2]]
  IN BagOf(fl \o dF.rv) = BagOf([k \in 1..Len(tp) |-> fed[tp[k]]])

(* ---------------- C03 (evaluated on one-piece states) -------------------- *)
OnePiece == Len(cuts) = 1
NegS(s) == [i \in 1..Len(s) |-> -s[i]]
Aff(s, a, b) == [i \in 1..Len(s) |-> a * s[i] + b]
MapCyc(cyc, F(_)) == [k \in 1..Len(cyc) |-> <<F(cyc[k][1]), F(cyc[k][2]), cyc[k][3], cyc[k][4]>>]
NegateSymmetric ==
  OnePiece =>
    LET n3 == Process34(D0, NegS(fed), 3, FALSE)  n4 == Process34(D0, NegS(fed), 4, FALSE)
        nF == ProcessF(F0, NegS(fed), FALSE)
    IN /\ n3.cyc = MapCyc(d3.cyc, LAMBDA x : -x) /\ n3.rv = NegS(d3.rv) /\ n3.ri = d3.ri
       /\ n4.cyc = MapCyc(d4.cyc, LAMBDA x : -x) /\ n4.rv = NegS(d4.rv) /\ n4.ri = d4.ri
       /\ nF.cyc = [k \in 1..Len(dF.cyc) |-> <<-dF.cyc[k][1], -dF.cyc[k][2]>>] /\ nF.rv = NegS(dF.rv)
AffineEquivariant ==
  OnePiece =>
    \A a \in {2, 3} : \A b \in {-3, 0, 5} :
      LET a3 == Process34(D0, Aff(fed, a, b), 3, FALSE)  a4 == Process34(D0, Aff(fed, a, b), 4, FALSE)
      IN /\ a3.cyc = MapCyc(d3.cyc, LAMBDA x : a * x + b) /\ a3.rv = Aff(d3.rv, a, b) /\ a3.ri = d3.ri
         /\ a4.cyc = MapCyc(d4.cyc, LAMBDA x : a * x + b) /\ a4.rv = Aff(d4.rv, a, b) /\ a4.ri = d4.ri
(* refinement by a non-reversal sample v that becomes the sample at position p *)
Admissible(s, p, v) ==
  \/ p = 1 /\ v = s[1]
  \/ p = Len(s) + 1 /\ v = s[Len(s)]
  \/ p > 1 /\ p <= Len(s) /\ Min2(s[p-1], s[p]) <= v /\ v <= Max2(s[p-1], s[p])
IdxMoves(s, p, v, old, new) ==       \* old/new 0-based
  \/ new = (IF old >= p - 1 THEN old + 1 ELSE old)
  \/ old = p - 1 /\ p <= Len(s) /\ v = s[p] /\ new = old      \* duplicate in front of a plateau start takes over
  \/ old = Len(s) - 1 /\ p = Len(s) + 1 /\ new = old + 1       \* appended duplicate takes over as "last sample"
SameUpToIdx(s, p, v, c0, c1) ==
  /\ Len(c0) = Len(c1)
  /\ \A k \in 1..Len(c0) : /\ c0[k][1] = c1[k][1] /\ c0[k][2] = c1[k][2]
                           /\ IdxMoves(s, p, v, c0[k][3], c1[k][3]) /\ IdxMoves(s, p, v, c0[k][4], c1[k][4])
RefineInvariant ==
  OnePiece /\ Len(fed) >= 2 =>
    \A p \in 1..(Len(fed) + 1) : \A v \in Vals :
      Admissible(fed, p, v) =>
        LET s2 == InsertAt(fed, p, v)
            r3 == Process34(D0, s2, 3, FALSE)  r4 == Process34(D0, s2, 4, FALSE)  rF == ProcessF(F0, s2, FALSE)
        IN /\ SameUpToIdx(fed, p, v, d3.cyc, r3.cyc) /\ r3.rv = d3.rv
           /\ SameUpToIdx(fed, p, v, d4.cyc, r4.cyc) /\ r4.rv = d4.rv
           /\ \A k \in 1..Len(d4.rv) : IdxMoves(fed, p, v, ResidualIndex(d4)[k], ResidualIndex(r4)[k])
           /\ \A k \in 1..Len(d3.rv) : IdxMoves(fed, p, v, ResidualIndex(d3)[k], ResidualIndex(r3)[k])
           /\ rF.cyc = dF.cyc /\ rF.rv = dF.rv
(* NaN: inserted at interior positions; the cleaned signal decides, indices address the original *)
NaN == 99
NaNIndexCorrection ==
  OnePiece /\ Len(fed) >= 2 =>
    \A p \in 2..Len(fed) : \A q \in p..Len(fed) :
      LET s1 == InsertAt(fed, p, NaN)
          s2 == IF q = p THEN s1 ELSE InsertAt(s1, q + 1, NaN)       \* one or two NaNs
          np == NaNPos0(s2, NaN)
          tp == TurnPosI(CleanNaN(s2, NaN))
      IN /\ CleanNaN(s2, NaN) = fed
         /\ \A k \in 1..Len(tp) : CorrectIdx(tp[k] - 1, np) = OrigPos0(s2, NaN, tp[k] - 1)
=============================================================================

---------------------------- MODULE Trace_Symmetry ----------------------------
(***************************************************************************)
(* C03: each recorded item is a pair of one-piece runs of a real detector:  *)
(* base = run on sig, trans = run on T(sig) for a transformation T.          *)
(* The spec accepts an item iff                                              *)
(*   "base"      the logged base projection is what the spec computes,       *)
(*   "relation"  the logged trans projection is related to the logged base   *)
(*               projection as C03 states (decided on observed values),      *)
(*   "transmodel" where T(sig) is a signal the spec can process (no NaN):    *)
(*               the logged trans projection is what the spec computes.      *)
(***************************************************************************)
EXTENDS Rainflow, TLC, Json, IOUtils, TLCExt
Traces == JsonDeserialize(IOEnv.TRACE_FILE).traces
VARIABLES tid, verdict
vars == <<tid, verdict>>
NaN == 9999

Run(k, s) == IF k = "F" THEN ObsF(ProcessF(F0, s, FALSE))
             ELSE Obs34(Process34(D0, s, IF k = "3" THEN 3 ELSE 4, FALSE))
Same(o, e) == o.cyc = e.cyc /\ o.rv = e.rv /\ o.rix = e.rix

MapVals(k, o, F(_)) ==
  [cyc |-> [i \in 1..Len(o.cyc) |-> IF k = "F" THEN <<F(o.cyc[i][1]), F(o.cyc[i][2])>>
                                     ELSE <<F(o.cyc[i][1]), F(o.cyc[i][2]), o.cyc[i][3], o.cyc[i][4]>>],
   rv |-> [i \in 1..Len(o.rv) |-> F(o.rv[i])], rix |-> o.rix]

IdxMoves(s, p, v, old, new) ==
  \/ new = (IF old >= p - 1 THEN old + 1 ELSE old)
  \/ old = p - 1 /\ p <= Len(s) /\ v = s[p] /\ new = old
  \/ old = Len(s) - 1 /\ p = Len(s) + 1 /\ new = old + 1
Admissible(s, p, v) ==
  \/ p = 1 /\ v = s[1]
  \/ p = Len(s) + 1 /\ v = s[Len(s)]
  \/ p > 1 /\ p <= Len(s) /\ Min2(s[p-1], s[p]) <= v /\ v <= Max2(s[p-1], s[p])

RelIns(k, s, p, v, b, t) ==
  /\ Admissible(s, p, v)
  /\ Len(b.cyc) = Len(t.cyc) /\ b.rv = t.rv /\ Len(b.rix) = Len(t.rix)
  /\ \A i \in 1..Len(b.cyc) : /\ b.cyc[i][1] = t.cyc[i][1] /\ b.cyc[i][2] = t.cyc[i][2]
                              /\ k # "F" => /\ IdxMoves(s, p, v, b.cyc[i][3], t.cyc[i][3])
                                            /\ IdxMoves(s, p, v, b.cyc[i][4], t.cyc[i][4])
  /\ k # "F" => \A i \in 1..Len(b.rix) : IdxMoves(s, p, v, b.rix[i], t.rix[i])

RelNaN(k, full, b, t) ==
  LET M(i) == OrigPos0(full, NaN, i) IN
  /\ Len(b.cyc) = Len(t.cyc) /\ b.rv = t.rv
  /\ \A i \in 1..Len(b.cyc) : /\ b.cyc[i][1] = t.cyc[i][1] /\ b.cyc[i][2] = t.cyc[i][2]
                              /\ k # "F" => t.cyc[i][3] = M(b.cyc[i][3]) /\ t.cyc[i][4] = M(b.cyc[i][4])
  /\ k # "F" => t.rix = [i \in 1..Len(b.rix) |-> M(b.rix[i])]
  /\ \A i \in 1..(IF k = "F" THEN 0 ELSE Len(t.cyc)) : full[t.cyc[i][3] + 1] = t.cyc[i][1] /\ full[t.cyc[i][4] + 1] = t.cyc[i][2]

Relation(e) ==
  CASE e.op = "neg" -> Same(MapVals(e.kind, e.base, LAMBDA x : -x), e.trans)
    [] e.op = "aff" -> e.kind # "F" /\ e.a > 0 /\ Same(MapVals(e.kind, e.base, LAMBDA x : e.a * x + e.b), e.trans)
    [] e.op = "ins" -> RelIns(e.kind, e.sig, e.p, e.v, e.base, e.trans)
    [] e.op = "nan" -> CleanNaN(e.full, NaN) = e.sig /\ RelNaN(e.kind, e.full, e.base, e.trans)
    [] e.op = "series" -> Same(e.base, e.trans)
TSig(e) ==
  CASE e.op = "neg" -> [i \in 1..Len(e.sig) |-> -e.sig[i]]
    [] e.op = "aff" -> [i \in 1..Len(e.sig) |-> e.a * e.sig[i] + e.b]
    [] e.op = "ins" -> InsertAt(e.sig, e.p, e.v)
    [] OTHER -> e.sig

Clause(e) ==
  IF ~Same(Run(e.kind, e.sig), e.base) THEN "base"
  ELSE IF ~Relation(e) THEN "relation"
  ELSE IF e.op # "nan" /\ ~Same(Run(e.kind, TSig(e)), e.trans) THEN "transmodel"
  ELSE "ok"

Init == tid \in 1..Len(Traces) /\ verdict = Clause(Traces[tid])
Next == UNCHANGED vars
Spec == Init /\ [][Next]_vars
Report == PrintT(<<"V", tid, 1, verdict>>)
=============================================================================

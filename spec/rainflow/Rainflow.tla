------------------------------ MODULE Rainflow ------------------------------
(***************************************************************************)
(* pyLife rainflow counting: stress/rainflow/{general,threepoint,fourpoint,*)
(* fkm}.py, extension.pyx, recorders.py.                                    *)
(*                                                                         *)
(* Two formulations are kept side by side:                                 *)
(*   I  implementation shaped (numpy diff/plateau logic of find_turns, the  *)
(*      _new_turns chunk protocol with sample tail / head index, the index  *)
(*      arithmetic of the Cython kernels, the FKM per-turn loop)            *)
(*   D  definitions the properties appeal to (reversal = sign change of the *)
(*      slope with the plateau counted at its first sample; textbook        *)
(*      four-point rule by leftmost-quadruple rewriting; chunk map)         *)
(* Sample values are integers; indices reported by the code are 0-based and *)
(* are kept 0-based here, positions inside TLA+ sequences are 1-based.      *)
(***************************************************************************)
EXTENDS Integers, Sequences, FiniteSets, SeqX

(* ======================= find_turns ===================================== *)

(* ---- D: p is a reversal iff the slope changes sign there; a plateau is   *)
(*         represented by its first sample                                  *)
NextDifferent(s, p) ==
  LET Q == {q \in (p+1)..Len(s) : s[q] # s[p]}
  IN IF Q = {} THEN 0 ELSE CHOOSE q \in Q : \A r \in Q : q <= r

IsTurnD(s, p) ==
  /\ p > 1 /\ p < Len(s)
  /\ s[p] # s[p-1]
  /\ LET q == NextDifferent(s, p)
     IN q # 0 /\ Sgn(s[p] - s[p-1]) * Sgn(s[q] - s[p]) < 0

TurnPosD(s) == Positions(Len(s), LAMBDA p : IsTurnD(s, p))

(* ---- I: numpy formulation (diffs, peak_turns, plateau_turns with the     *)
(*         dups_starts / dups_ends pairing and the two "cut" rules)         *)
Diffs(s) == [i \in 1..(Len(s) - 1) |-> s[i+1] - s[i]]

TurnPosI(s) ==
  IF Len(s) < 3 THEN <<>> ELSE
  LET d   == Diffs(s)
      n   == Len(d)
      dup == [i \in 1..n |-> IF d[i] = 0 THEN 1 ELSE 0]
      st0 == Positions(n - 1, LAMBDA i : dup[i+1] - dup[i] > 0)
      en0 == Positions(n - 1, LAMBDA i : dup[i+1] - dup[i] < 0)
      both == Len(st0) > 0 /\ Len(en0) > 0
      cutEnds   == both /\ en0[1] < st0[1]
      cutStarts == both /\ st0[Len(st0)] > en0[Len(en0)]
      en == IF cutEnds THEN Tail(en0) ELSE en0
      st == IF cutStarts THEN FrontOf(st0) ELSE st0
      plateau(i) == both /\ \E k \in 1..Len(st) : st[k] = i /\ Sgn(d[st[k]]) * Sgn(d[en[k] + 1]) < 0
      peak(i) == Sgn(d[i]) * Sgn(d[i+1]) < 0      \* the code multiplies the differences; signs only here, so that TLC's 32-bit integers carry large sample values
  IN  MapSeq(Positions(n - 1, LAMBDA i : peak(i) \/ plateau(i)), LAMBDA i : i + 1)

(* NaN handling of find_turns: NaN is the distinguished value NaN; the      *)
(* cleaned signal is searched and indices are corrected nan by nan           *)
CleanNaN(s, NaN) == SelectSeq(s, LAMBDA x : x # NaN)
NaNPos0(s, NaN) == MapSeq(Positions(Len(s), LAMBDA p : s[p] = NaN), LAMBDA p : p - 1)  \* 0-based
RECURSIVE CorrectIdx(_, _)
CorrectIdx(idx0, nanpos) ==      \* index[index >= nan_pos] += 1, for nan_pos ascending
  IF nanpos = <<>> THEN idx0
  ELSE CorrectIdx(IF idx0 >= nanpos[1] THEN idx0 + 1 ELSE idx0, Tail(nanpos))
(* D: the k-th clean sample sits at the k-th non-NaN position of the original *)
OrigPos0(s, NaN, k0) == Positions(Len(s), LAMBDA p : s[p] # NaN)[k0 + 1] - 1

(* ======================= _new_turns (chunk protocol) ==================== *)
(* returns turning values tv, their global 0-based indices tix, new tail and head *)
NewTurns(tail, head, chunk, flush) ==
  LET swt == tail \o chunk
      tp  == TurnPosI(swt)
      ti  == IF Len(tp) > 0 THEN tp[Len(tp)] ELSE 1
      tv  == [k \in 1..Len(tp) |-> swt[tp[k]]]
      tix == [k \in 1..Len(tp) |-> tp[k] - 1 + head - Len(tail)]
      nt  == SubSeq(swt, ti, Len(swt))
      nh  == head + Len(chunk)
  IN IF flush /\ Len(nt) > 0
     THEN [tv |-> Append(tv, LastOf(nt)), tix |-> Append(tix, nh - 1), tail |-> <<LastOf(nt)>>, head |-> nh]
     ELSE [tv |-> tv, tix |-> tix, tail |-> nt, head |-> nh]

(* ======================= kernels (extension.pyx) ======================== *)
(* positions are 1-based: code index k  <->  k+1 here *)
RECURSIVE K4(_, _, _, _, _)
K4(turns, tidx, i, res, cyc) ==
  IF i > Len(turns) THEN [res |-> res, cyc |-> cyc]
  ELSE IF Len(res) < 3 THEN K4(turns, tidx, i + 1, Append(res, i), cyc)
  ELSE LET n == Len(res)
           a == turns[res[n-2]]  b == turns[res[n-1]]  c == turns[res[n]]  d == turns[i]
       IN IF Abs(b - c) <= Abs(a - b) /\ Abs(b - c) <= Abs(c - d)
          THEN K4(turns, tidx, i, SubSeq(res, 1, n - 2),
                  Append(cyc, <<b, c, tidx[res[n-1]], tidx[res[n]]>>))
          ELSE K4(turns, tidx, i + 1, Append(res, i), cyc)
Kernel4(turns, tidx) == K4(turns, tidx, 3, <<1, 2>>, <<>>)

RECURSIVE K3(_, _, _, _, _, _, _)
K3(turns, tidx, back, res, cyc, hf, lf) ==
  IF back > Len(turns) THEN [res |-> res, cyc |-> cyc]
  ELSE IF Len(res) >= 2 THEN
       LET n == Len(res)  start == res[n-1]  front == res[n]
           sv == turns[start]  fv == turns[front]  bv == turns[back]
       IN IF fv > turns[hf] THEN K3(turns, tidx, back + 1, Append(res, back), cyc, front, lf)
          ELSE IF fv < turns[lf] THEN K3(turns, tidx, back + 1, Append(res, back), cyc, hf, front)
          ELSE IF start >= Max2(lf, hf) /\ Abs(bv - fv) >= Abs(fv - sv)
               THEN K3(turns, tidx, back, SubSeq(res, 1, n - 2),
                       Append(cyc, <<sv, fv, tidx[start], tidx[front]>>), hf, lf)
               ELSE K3(turns, tidx, back + 1, Append(res, back), cyc, hf, lf)
  ELSE K3(turns, tidx, back + 1, Append(res, back), cyc, hf, lf)
Kernel3(turns, tidx, hf, lf) == K3(turns, tidx, 3, <<1, 2>>, <<>>, hf, lf)

(* ======================= detectors ====================================== *)
(* three/four point detector state: tail, head, rv (residual values incl.   *)
(* the pseudo turn "last sample"), ri (_residual_index), cyc, chunks         *)
D0 == [tail |-> <<>>, head |-> 0, rv |-> <<>>, ri |-> <<0>>, cyc |-> <<>>, chunks |-> <<>>]

Process34(d, chunk, kind, flush) ==
  LET rin   == IF d.rv = <<>> THEN <<chunk[1]>> ELSE FrontOf(d.rv)
      nt    == NewTurns(d.tail, d.head, chunk, flush)
      turns == rin \o nt.tv \o <<LastOf(chunk)>>
      tidx  == d.ri \o nt.tix
      k     == IF kind = 4 THEN Kernel4(turns, tidx)
               ELSE Kernel3(turns, tidx, ArgMax(rin), ArgMin(rin))
  IN [tail |-> nt.tail, head |-> nt.head,
      rv  |-> [j \in 1..Len(k.res) |-> turns[k.res[j]]],
      ri  |-> [j \in 1..(Len(k.res) - 1) |-> tidx[k.res[j]]],
      cyc |-> d.cyc \o k.cyc,
      chunks |-> Append(d.chunks, Len(chunk))]

ResidualIndex(d) == Append(d.ri, d.head - 1)        \* property residual_index

(* FKM (Clormann-Seeger) detector: rv = open turning points, ir, mx *)
F0 == [tail |-> <<>>, head |-> 0, rv |-> <<>>, ir |-> 1, mx |-> 0, cyc |-> <<>>]
RECURSIVE FStep(_, _)
FStep(f, K) ==
  LET iz == Len(f.rv) IN
  IF iz < f.ir THEN f
  ELSE IF iz > f.ir THEN
       LET l0 == f.rv[iz]  l1 == f.rv[iz-1] IN
       IF Abs(K - l0) >= Abs(l0 - l1)
       THEN LET g == [f EXCEPT !.cyc = Append(@, <<l1, l0>>), !.rv = SubSeq(@, 1, iz - 2)]
            IN IF Abs(l0) < f.mx /\ Abs(l1) < f.mx THEN FStep(g, K) ELSE g
       ELSE f
  ELSE IF Abs(K) > f.mx THEN [f EXCEPT !.ir = @ + 1] ELSE f
FFeed(f, K) == LET g == FStep(f, K)
               IN [g EXCEPT !.mx = Max2(Abs(K), @), !.rv = Append(@, K)]
RECURSIVE FFeedAll(_, _)
FFeedAll(f, t) == IF t = <<>> THEN f ELSE FFeedAll(FFeed(f, Head(t)), Tail(t))
ProcessF(f, chunk, flush) ==
  LET nt == NewTurns(f.tail, f.head, chunk, flush)
      g  == FFeedAll(f, nt.tv)
  IN [g EXCEPT !.tail = nt.tail, !.head = nt.head]

(* ======================= D: definitions ================================= *)
(* turning-point sequence the 3/4 point detectors work on: first sample,    *)
(* interior reversals, last sample; entries <<value, 0-based index>>        *)
TurnSeq(s) ==
  LET tp == TurnPosD(s)
  IN <<<<s[1], 0>>>> \o [k \in 1..Len(tp) |-> <<s[tp[k]], tp[k] - 1>>] \o <<<<s[Len(s)], Len(s) - 1>>>>

(* textbook four point rule as rewriting: leftmost quadruple a,b,c,d with   *)
(* |b-c| <= |a-b| and |b-c| <= |c-d|: count (b,c), delete both, rescan      *)
RECURSIVE FourPointDef(_, _)
FourPointDef(t, cyc) ==
  LET Q == {i \in 1..(Len(t) - 3) :
              /\ Abs(t[i+1][1] - t[i+2][1]) <= Abs(t[i][1] - t[i+1][1])
              /\ Abs(t[i+1][1] - t[i+2][1]) <= Abs(t[i+2][1] - t[i+3][1])}
  IN IF Q = {} THEN [res |-> t, cyc |-> cyc]
     ELSE LET i == CHOOSE i \in Q : \A j \in Q : i <= j
          IN FourPointDef(SubSeq(t, 1, i) \o SubSeq(t, i + 3, Len(t)),
                          Append(cyc, <<t[i+1][1], t[i+2][1], t[i+1][2], t[i+2][2]>>))

(* Clormann-Seeger HCM on the interior reversals, written as a fold over a  *)
(* residue list with the counter of entries on the initial curve            *)
HCMDef(s) == LET tp == TurnPosD(s) IN FFeedAll(F0, [k \in 1..Len(tp) |-> s[tp[k]]])

(* chunk map of the recorder: I = cumsum/searchsorted(side='right'),        *)
(* D = the unique chunk whose sample range contains g                       *)
ChunkStarts(chunks) == [c \in 1..(Len(chunks) + 1) |-> SumSeq(SubSeq(chunks, 1, c - 1))]
ChunkLocalI(chunks, g) ==
  LET ci == ChunkStarts(chunks)
      num == Cardinality({c \in 1..Len(ci) : ci[c] <= g}) - 1    \* searchsorted right - 1, 0-based chunk number
  IN <<num, g - ci[num + 1]>>
ChunkLocalD(chunks, g) ==
  LET ci == ChunkStarts(chunks)
      c == CHOOSE c \in 1..Len(chunks) : ci[c] <= g /\ g < ci[c] + chunks[c]
  IN <<c - 1, g - ci[c]>>

(* observables the properties talk about *)
Obs34(d) == [cyc |-> d.cyc, rv |-> d.rv, rix |-> ResidualIndex(d)]
ObsF(f)  == [cyc |-> f.cyc, rv |-> f.rv, rix |-> <<0, f.head - 1>>]
CycVals(cyc) == [k \in 1..Len(cyc) |-> <<cyc[k][1], cyc[k][2]>>]
=============================================================================

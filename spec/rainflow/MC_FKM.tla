------------------------------- MODULE MC_FKM -------------------------------
(***************************************************************************)
(* FKM (Clormann-Seeger) detector under chunking on a LARGER alphabet.      *)
(* The rule compares absolute values with the largest load seen so far, so   *)
(* its chunk independence depends on the rank structure of |values|; the     *)
(* instance therefore uses -Amp..Amp but only signals in which every sample  *)
(* is a reversal (strictly alternating slopes), built sample by sample with  *)
(* an explicit "close the current chunk" action and at most MaxCuts borders. *)
(***************************************************************************)
EXTENDS Rainflow, TLC
CONSTANTS Amp, MaxLen, MaxCuts
VARIABLES fed, cuts, open, dF
vars == <<fed, cuts, open, dF>>
Vals == -Amp..Amp

Init == fed = <<>> /\ cuts = <<>> /\ open = <<>> /\ dF = F0

Alternates(s, v) ==
  LET n == Len(s) IN
  IF n = 0 THEN TRUE
  ELSE IF n = 1 THEN v # s[1]
  ELSE (v - s[n]) * (s[n] - s[n-1]) < 0

AddSample(v) == /\ Len(fed) < MaxLen /\ Alternates(fed, v)
                /\ fed' = Append(fed, v) /\ open' = Append(open, v) /\ UNCHANGED <<cuts, dF>>
CloseChunk == /\ open # <<>> /\ Len(cuts) <= MaxCuts
              /\ dF' = ProcessF(dF, open, FALSE) /\ cuts' = Append(cuts, Len(open)) /\ open' = <<>> /\ UNCHANGED fed
Next == (\E v \in Vals : AddSample(v)) \/ CloseChunk
Spec == Init /\ [][Next]_vars

ChunkIndependentF == (open = <<>> /\ fed # <<>>) => ObsF(dF) = ObsF(ProcessF(F0, fed, FALSE))
(* internal state that must also agree (the counters are what a later chunk builds on) *)
CountersAgree == (open = <<>> /\ fed # <<>>) =>
   LET o == ProcessF(F0, fed, FALSE) IN dF.ir = o.ir /\ dF.mx = o.mx /\ dF.tail = o.tail
MaxSeenIsMaxOfTurns == open = <<>> =>
   LET tp == TurnPosD(fed) IN \A k \in 1..Len(tp) : Abs(fed[tp[k]]) <= dF.mx
=============================================================================

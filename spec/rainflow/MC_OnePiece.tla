----------------------------- MODULE MC_OnePiece -----------------------------
(***************************************************************************)
(* Every signal over Vals with MinLen..MaxLen samples, processed in one     *)
(* piece.  The state carries the implementation-shaped results (o3, o4, oF)  *)
(* and the definition-level results (def4, hcm) so that a dump of the state  *)
(* space is a table  input -> expected output  for the replay into the code. *)
(***************************************************************************)
EXTENDS Rainflow, TLC
CONSTANTS Vals, MinLen, MaxLen,
          OnlyReversals     \* TRUE: only signals in which every interior sample is a reversal (strictly alternating) — longer, larger-valued reversal sequences at the same cost
Sym1 == -1..1
Sym2 == -2..2
Sym3 == -3..3
Asym3 == -1..2
(* sample values whose ranges differ by one count at 2^24 .. 2^25: ranges that are different numbers but agree in their first seven digits *)
Near == {0, 3, 16777216, 16777217, 33554433}
VARIABLES fed, o3, o4, oF, def4
vars == <<fed, o3, o4, oF, def4>>

(* the signal grows sample by sample so that TLC's workers share the enumeration; every state is one signal *)
Alternates(f, v) == IF Len(f) = 0 THEN TRUE
                    ELSE IF Len(f) = 1 THEN v # f[1]
                    ELSE Sgn(f[Len(f)] - f[Len(f) - 1]) * Sgn(v - f[Len(f)]) < 0
Init == fed = <<>> /\ o3 = D0 /\ o4 = D0 /\ oF = F0 /\ def4 = [res |-> <<>>, cyc |-> <<>>]
Next == /\ Len(fed) < MaxLen
        /\ \E v \in Vals :
             /\ OnlyReversals => Alternates(fed, v)
             /\ fed' = Append(fed, v)
             /\ o3' = Process34(D0, fed', 3, FALSE)
             /\ o4' = Process34(D0, fed', 4, FALSE)
             /\ oF' = ProcessF(F0, fed', FALSE)
             /\ def4' = IF Len(fed') >= 2 THEN FourPointDef(TurnSeq(fed'), <<>>) ELSE [res |-> <<>>, cyc |-> <<>>]
Spec == Init /\ [][Next]_vars

FindTurnsAgree == Len(fed) >= MinLen => TurnPosI(fed) = TurnPosD(fed)
FourPointIsDefinition == Len(fed) >= MinLen =>
    /\ o4.cyc = def4.cyc
    /\ o4.rv = [k \in 1..Len(def4.res) |-> def4.res[k][1]]
    /\ ResidualIndex(o4) = [k \in 1..Len(def4.res) |-> def4.res[k][2]]
ThreePointSameBag == Len(fed) >= MinLen => BagOf(o3.cyc) = BagOf(o4.cyc) /\ o3.rv = o4.rv /\ ResidualIndex(o3) = ResidualIndex(o4)
IdxBag(d) == BagOf([k \in 1..(2 * Len(d.cyc)) |-> IF k % 2 = 1 THEN d.cyc[(k + 1) \div 2][3] ELSE d.cyc[k \div 2][4]]
                   \o ResidualIndex(d))
EveryTurnOnce == Len(fed) >= MinLen =>
    LET ts == TurnSeq(fed)
        want == BagOf([k \in 1..Len(ts) |-> ts[k][2]])
    IN IdxBag(o3) = want /\ IdxBag(o4) = want
IndexAddresses == Len(fed) >= MinLen =>
  \A d \in {o3, o4} :
    /\ \A k \in 1..Len(d.cyc) : fed[d.cyc[k][3] + 1] = d.cyc[k][1] /\ fed[d.cyc[k][4] + 1] = d.cyc[k][2]
    /\ \A k \in 1..Len(d.rv) : fed[ResidualIndex(d)[k] + 1] = d.rv[k]
FKMIsHCM == Len(fed) >= MinLen => LET h == HCMDef(fed) IN oF.cyc = h.cyc /\ oF.rv = h.rv
FKMEveryTurnOnce == Len(fed) >= MinLen =>
  LET tp == TurnPosD(fed)
      fl == [k \in 1..(2 * Len(oF.cyc)) |-> IF k % 2 = 1 THEN oF.cyc[(k + 1) \div 2][1] ELSE oF.cyc[k \div 2][2]]
  IN BagOf(fl \o oF.rv) = BagOf([k \in 1..Len(tp) |-> fed[tp[k]]])
(* closed FKM cycles never reach beyond the largest load seen before they closed,
   and every closed cycle is a cycle the four point rule also closes on the same reversals or is held back in
   its residual -- stated as: FKM cycles are a sub-bag of the four-point cycles of the doubled signal is NOT claimed;
   only the bound is *)
FKMCycleBound == Len(fed) >= MinLen => \A k \in 1..Len(oF.cyc) : Abs(oF.cyc[k][1]) <= oF.mx /\ Abs(oF.cyc[k][2]) <= oF.mx
=============================================================================

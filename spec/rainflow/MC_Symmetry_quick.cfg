SPECIFICATION Spec
CONSTANTS
  Vals <- Sym2
  MinLen = 2
  MaxLen = 5
INVARIANT NegateSymmetric
INVARIANT AffineEquivariant
INVARIANT RefineInvariant
INVARIANT NaNIndexCorrection

SPECIFICATION Spec
CONSTANTS
  Vals <- Sym2
  MaxLen = 6
  WithFlush = FALSE
INVARIANT FindTurnsAgree
INVARIANT ChunkIndependent3
INVARIANT ChunkIndependent4
INVARIANT ChunkIndependentF
INVARIANT ChunksRecorded
INVARIANT ChunkMap
INVARIANT HeadAndTail
INVARIANT FourPointIsDefinition
INVARIANT ThreePointSameBag
INVARIANT EveryTurnOnce
INVARIANT IndexAddresses
INVARIANT FKMIsHCM
INVARIANT FKMEveryTurnOnce
INVARIANT NegateSymmetric
INVARIANT AffineEquivariant
INVARIANT RefineInvariant
INVARIANT NaNIndexCorrection

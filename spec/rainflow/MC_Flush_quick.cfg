SPECIFICATION Spec
CONSTANTS
  Vals <- Sym1
  MaxLen = 5
INVARIANT FinalFlushIsOnePieceFlush
INVARIANT TailAfterFlush
INVARIANT FlushedLastSampleProcessed
INVARIANT HeadCounts
INVARIANT ResidualCollapseNeedsFlush

---------------------------- MODULE Trace_Rainflow ----------------------------
(***************************************************************************)
(* Validation of executions recorded from the real detectors.  The file    *)
(* holds many traces; each trace is the sequence of process(chunk) calls on *)
(* one detector with the projected observable state logged after each call. *)
(* A trace is accepted iff every logged projection is the one the            *)
(* specification's Process action produces; the invariants below are then    *)
(* evaluated by TLC in every state of the accepted behaviour.               *)
(* Verdicts are total: each trace ends with a printed <<"V", tid, steps      *)
(* consumed, clause>> where clause = "ok" or the first failing conjunct.     *)
(***************************************************************************)
EXTENDS Rainflow, TLC, Json, IOUtils, TLCExt
Traces == JsonDeserialize(IOEnv.TRACE_FILE).traces

VARIABLES tid, l, fed, cuts, st, verdict
vars == <<tid, l, fed, cuts, st, verdict>>

Kind(t) == Traces[t].kind
Events(t) == Traces[t].events

Init == /\ tid \in 1..Len(Traces) /\ l = 0 /\ fed = <<>> /\ cuts = <<>> /\ verdict = "ok"
        /\ st = IF Kind(tid) = "F" THEN F0 ELSE D0

ModelStep(k, s, e) ==
  IF k = "F" THEN ProcessF(s, e.chunk, e.flush)
  ELSE Process34(s, e.chunk, IF k = "3" THEN 3 ELSE 4, e.flush)
ModelObs(k, s) == IF k = "F" THEN ObsF(s) ELSE Obs34(s)

Clause(k, s2, e) ==
  LET o == ModelObs(k, s2) IN
  IF o.cyc # e.cyc THEN "cycles"
  ELSE IF o.rv # e.rv THEN "residuals"
  ELSE IF o.rix # e.rix THEN "residual_index"
  ELSE IF k # "F" /\ s2.chunks # e.chunks THEN "chunks"
  ELSE "ok"

Step ==
  /\ verdict = "ok" /\ l < Len(Events(tid))
  /\ LET e == Events(tid)[l + 1]
         s2 == ModelStep(Kind(tid), st, e)
     IN /\ st' = s2 /\ verdict' = Clause(Kind(tid), s2, e)
        /\ fed' = fed \o e.chunk /\ cuts' = Append(cuts, Len(e.chunk))
  /\ l' = l + 1 /\ UNCHANGED tid
Spec == Init /\ [][Step]_vars

Done == verdict # "ok" \/ l = Len(Events(tid))
Report == Done => PrintT(<<"V", tid, l, verdict>>)

(* ---- properties evaluated in every state of an accepted behaviour ---- *)
NoFlushSoFar == \A i \in 1..l : ~Events(tid)[i].flush
ChunkIndependent ==
  (verdict = "ok" /\ fed # <<>> /\ NoFlushSoFar) =>
     IF Kind(tid) = "F" THEN ObsF(st) = ObsF(ProcessF(F0, fed, FALSE))
     ELSE Obs34(st) = Obs34(Process34(D0, fed, IF Kind(tid) = "3" THEN 3 ELSE 4, FALSE))
IsDefinition ==
  (verdict = "ok" /\ Len(fed) >= 2 /\ NoFlushSoFar) =>
     IF Kind(tid) = "F" THEN LET h == HCMDef(fed) IN st.cyc = h.cyc /\ st.rv = h.rv
     ELSE LET d == FourPointDef(TurnSeq(fed), <<>>) IN
          /\ (IF Kind(tid) = "4" THEN st.cyc = d.cyc ELSE BagOf(st.cyc) = BagOf(d.cyc))
          /\ st.rv = [k \in 1..Len(d.res) |-> d.res[k][1]]
          /\ ResidualIndex(st) = [k \in 1..Len(d.res) |-> d.res[k][2]]
ChunkMapHolds ==
  verdict = "ok" => \A g \in 0..(Len(fed) - 1) : ChunkLocalI(cuts, g) = ChunkLocalD(cuts, g)
=============================================================================

SPECIFICATION Spec
CONSTANTS
  Vals <- Sym2
  MinLen = 2
  OnlyReversals = TRUE
  MaxLen = 8
INVARIANT FindTurnsAgree
INVARIANT FourPointIsDefinition
INVARIANT ThreePointSameBag
INVARIANT EveryTurnOnce
INVARIANT IndexAddresses
INVARIANT FKMIsHCM
INVARIANT FKMEveryTurnOnce
INVARIANT FKMCycleBound

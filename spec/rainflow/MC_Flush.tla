------------------------------- MODULE MC_Flush -------------------------------
(***************************************************************************)
(* Extension beyond the listed properties: the flush protocol of the         *)
(* detectors (process(samples, flush=True) / flush()).  Every chunk may be   *)
(* fed with or without flush.  Documented meaning (AbstractDetector.process):*)
(*  - flush forces the last sample of the chunk to be processed as a turning *)
(*    point and leaves only that sample cached;                              *)
(*  - a run whose ONLY flush is on the last chunk is the one-piece run with  *)
(*    flush (chunk independence extends to the final flush);                 *)
(*  - after a flush the cached tail is exactly the last sample.              *)
(***************************************************************************)
EXTENDS Rainflow, TLC
CONSTANTS Vals, MaxLen
Sym1 == -1..1
VARIABLES fed, cuts, flushes, d3, d4, dF
vars == <<fed, cuts, flushes, d3, d4, dF>>
Init == fed = <<>> /\ cuts = <<>> /\ flushes = <<>> /\ d3 = D0 /\ d4 = D0 /\ dF = F0
Feed(chunk, fl) ==
  /\ fed' = fed \o chunk /\ cuts' = Append(cuts, Len(chunk)) /\ flushes' = Append(flushes, fl)
  /\ d3' = Process34(d3, chunk, 3, fl) /\ d4' = Process34(d4, chunk, 4, fl) /\ dF' = ProcessF(dF, chunk, fl)
(* Observation O8 (found with this model): ThreePointDetector.process([x], flush=True) as the very first call records the
   degenerate cycle (x, x) and leaves a residual of length one, after which the next process() raises
   "attempt to get argmax of an empty sequence"; the same happens after any flush that lets the three-point kernel close
   everything (e.g. process([x]); process([x], flush=True)).  Such states have no successors here (reported in DESIGN.md, section 7). *)
Next == \E n \in 1..(MaxLen - Len(fed)) : \E chunk \in [1..n -> Vals] : \E fl \in BOOLEAN :
           ~(fed = <<>> /\ n = 1 /\ fl) /\ Len(d3.rv) # 1 /\ Feed(chunk, fl)
Spec == Init /\ [][Next]_vars
OnlyFinalFlush == flushes # <<>> /\ LastOf(flushes) /\ \A i \in 1..(Len(flushes) - 1) : ~flushes[i]
FinalFlushIsOnePieceFlush ==
  OnlyFinalFlush =>
    /\ Obs34(d3) = Obs34(Process34(D0, fed, 3, TRUE)) /\ Obs34(d4) = Obs34(Process34(D0, fed, 4, TRUE))
    /\ ObsF(dF) = ObsF(ProcessF(F0, fed, TRUE))
TailAfterFlush == (flushes # <<>> /\ LastOf(flushes)) => (d3.tail = <<LastOf(fed)>> /\ d4.tail = <<LastOf(fed)>> /\ dF.tail = <<LastOf(fed)>>)
(* with a final flush the FKM detector has seen the last sample as a turning point: it is in the residual or closed a loop *)
FlushedLastSampleProcessed == (flushes # <<>> /\ LastOf(flushes)) => (dF.rv # <<>> /\ LastOf(dF.rv) = LastOf(fed))
HeadCounts == d3.head = Len(fed) /\ dF.head = Len(fed)
(* the three-point residual never collapses to a single entry without a flush *)
ResidualCollapseNeedsFlush == (fed # <<>> /\ Len(d3.rv) = 1) => (\E i \in 1..Len(flushes) : flushes[i])
=============================================================================

SPECIFICATION Spec
CONSTANTS
  Amp = 2
  MaxLen = 9
  MaxCuts = 1
INVARIANT ChunkIndependentF
INVARIANT CountersAgree
INVARIANT MaxSeenIsMaxOfTurns

SPECIFICATION Spec
INVARIANT Report

------------------------------- MODULE Neuber -------------------------------
(***************************************************************************)
(* materiallaws/notch_approximation_law.py (ExtendedNeuber) and rambgood.py  *)
(* in exact rational arithmetic, for hardening exponents n' = 1/m (m integer)*)
(* and in units of K':   q = sigma/K',  l = L/K',  e = E/K'.                  *)
(*                                                                           *)
(* I: the implicit functions exactly as coded (eq. 2.5-45 / 2.5-46):          *)
(*      f(sigma)  = strain(sigma)  - L/sigma  * K_p * e*(L)                   *)
(*      f(dsigma) = dstrain(dsigma) - dL/dsigma * K_p * de*(dL)               *)
(*    with the Ramberg-Osgood strain and its Masing-doubled range form.      *)
(* D: for a chosen stress q, load l > q and shape factor K_p the stiffness    *)
(*    ratio e = EFor(q, l, kp, m) is the one for which q is EXACTLY the root  *)
(*    of f at load l — a rational number, so every state of the model is a    *)
(*    material/load pair whose exact answer is known.                        *)
(***************************************************************************)
EXTENDS Integers, Rat
R0 == <<0, 1>>
R1 == <<1, 1>>
R2 == <<2, 1>>
RNeg(p) == <<-p[1], p[2]>>
RAbs(p) == <<IF p[1] < 0 THEN -p[1] ELSE p[1], p[2]>>
RSgn(p) == IF p[1] > 0 THEN 1 ELSE IF p[1] < 0 THEN -1 ELSE 0
RECURSIVE RPow(_, _)
RPow(p, k) == IF k = 0 THEN R1 ELSE RMul(p, RPow(p, k - 1))

(* rambgood.py: strain = s/E + sgn(s) (|s|/K')^(1/n') ; delta_strain(ds) = 2 strain(ds/2) *)
Strain(q, e, m) == RAdd(RDiv(q, e), RMul(<<RSgn(q), 1>>, RPow(RAbs(q), m)))
DeltaStrain(dq, e, m) == RMul(R2, Strain(RDiv(dq, R2), e, m))
(* eq. 2.5-43: e* = strain(L / K_p), range form with the doubled curve *)
EStar(l, kp, e, m) == Strain(RDiv(l, kp), e, m)
DeltaEStar(dl, kp, e, m) == DeltaStrain(RDiv(dl, kp), e, m)
(* I: _stress_implicit / _stress_secondary_implicit as coded *)
FPrimary(q, l, kp, e, m) == RSub(Strain(q, e, m), RMul(RMul(RDiv(l, q), kp), EStar(l, kp, e, m)))
FSecondary(dq, dl, kp, e, m) == RSub(DeltaStrain(dq, e, m), RMul(RMul(RDiv(dl, dq), kp), DeltaEStar(dl, kp, e, m)))

(* D: Neuber's rule  sigma * strain(sigma) = L * K_p * e*(L);  both sides as functions *)
G(q, e, m) == RMul(q, Strain(q, e, m))                    \* strictly increasing in q > 0
Rhs(l, kp, e, m) == RMul(RMul(l, kp), EStar(l, kp, e, m))
(* the stiffness ratio for which q is the root at load l:
   q^2/e + q^(m+1) = l^2/e + l^(m+1)/kp^(m-1)   =>   e = (l^2 - q^2) / (q^(m+1) - l^(m+1)/kp^(m-1)) *)
Plastic(q, l, kp, m) == RSub(RPow(q, m + 1), RDiv(RPow(l, m + 1), RPow(kp, m - 1)))
Admissible(q, l, kp, m) == RLt(R0, q) /\ RLt(q, l) /\ RLe(R1, kp) /\ RLt(R0, Plastic(q, l, kp, m))
EFor(q, l, kp, m) == RDiv(RSub(RMul(l, l), RMul(q, q)), Plastic(q, l, kp, m))
=============================================================================

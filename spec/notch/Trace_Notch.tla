----------------------------- MODULE Trace_Notch -----------------------------
(***************************************************************************)
(* Decides recorded executions of the real notch approximation laws          *)
(* (ExtendedNeuber, SeegerBeste) for realistic materials.  One trace = one   *)
(* law object (material, K_p, solver tolerance) asked along an ASCENDING     *)
(* load walk; one step = everything the law answers for one load L:          *)
(*   lgS    primary stress for +L            lgSneg  |stress| for -L         *)
(*   lgD    stress range for the range 2L    lgLb    load(stress(L))         *)
(*   lgLbs  load range of (stress range of 2L)   lgLbneg |load(stress(-L))|  *)
(*   lgEps / lgEpsRO   strain() answered / Ramberg-Osgood strain of lgS      *)
(*   forms  the primary stress asked as array / scalar / Series / inside a   *)
(*          longer array / inside a vector of 400 loads (array, and Series    *)
(*          with unordered integer labels); formsD the same for the range     *)
(*   bresP, bresS (per trace) the largest residual over the long vectors       *)
(*   resP, resS  residual of the law's defining equation (the harness' own   *)
(*          transcription of eq. 2.5-45/46 resp. 2.8-42/43) expressed as the *)
(*          equivalent stress error in thousandths of the requested          *)
(*          tolerance (tol + rtol |stress|)                                  *)
(* Magnitudes are logged as round(2^20 log2 x) ("micro-log units").          *)
(* tau = the requested solver tolerance in these units (given per trace),    *)
(* tauEq = 2 units for "identical".  A step on which the solver raised is    *)
(* counted and skipped.  The first failing clause is reported.               *)
(***************************************************************************)
EXTENDS Integers, Sequences, TLC, Json, IOUtils, TLCExt
Traces == JsonDeserialize(IOEnv.TRACE_FILE).traces
Two == 1048576                 \* log2(2) in micro-log units: Masing doubling
TauEq == 2
ResMax == 2000                 \* twice the requested tolerance
VARIABLES tid, l, prev, verdict
vars == <<tid, l, prev, verdict>>
Within(x, y, t) == x - y <= t /\ y - x <= t
StepClause(t, s) ==
  IF s.raised THEN "ok"
  ELSE IF s.lgS < s.lgL - t.lgKp - t.tau THEN "stress_below_load_over_Kp"
  ELSE IF s.lgS > s.lgL + t.tau THEN "stress_above_load"
  ELSE IF t.bresP > ResMax THEN "long_vector_stress_is_not_a_root"
  ELSE IF t.bresS > ResMax THEN "long_vector_stress_range_is_not_a_root"
  ELSE IF ~s.signs_ok THEN "sign_of_stress_differs_from_sign_of_load"
  ELSE IF ~Within(s.lgSneg, s.lgS, TauEq) THEN "not_odd_in_the_load"
  ELSE IF ~Within(s.lgD, s.lgS + Two, t.tau) THEN "stress_range_is_not_the_Masing_doubled_primary_stress"
  ELSE IF s.resP > ResMax THEN "primary_stress_is_not_a_root_of_the_defining_equation"
  ELSE IF s.resS > ResMax THEN "stress_range_is_not_a_root_of_the_defining_equation"
  ELSE IF ~Within(s.lgEps, s.lgEpsRO, TauEq) THEN "strain_is_not_the_Ramberg_Osgood_strain_of_the_stress"
  ELSE IF ~Within(s.lgDEps, s.lgDEpsRO, TauEq) THEN "strain_range_is_not_the_doubled_Ramberg_Osgood_curve"
  ELSE IF s.lgLb # 0 /\ ~Within(s.lgLb, s.lgL, t.tau) THEN "load_of_stress_is_not_the_load"
  ELSE IF s.lgLbs # 0 /\ ~Within(s.lgLbs, s.lgL + Two, t.tau) THEN "load_range_of_stress_range_is_not_the_load_range"
  ELSE IF s.lgLbneg # 0 /\ ~Within(s.lgLbneg, s.lgL, t.tau) THEN "load_of_the_mirrored_stress_is_not_the_mirrored_load"
  ELSE IF s.lgLbArr # 0 /\ ~Within(s.lgLbArr, s.lgL, t.tau) THEN "load_of_stress_given_as_array_is_not_the_load"
  ELSE IF s.lgLbsArr # 0 /\ ~Within(s.lgLbsArr, s.lgL + Two, t.tau) THEN "load_range_of_stress_range_given_as_array_is_not_the_load_range"
  ELSE IF \E i \in 1..Len(s.forms) : ~Within(s.forms[i], s.lgS, t.tau) THEN "scalar_array_and_Series_inputs_differ"
  ELSE IF \E i \in 1..Len(s.formsD) : ~Within(s.formsD[i], s.lgD, t.tau) THEN "secondary_branch_container_forms_differ"
  ELSE "ok"
(* strictly increasing: compared with the last answered step of the walk *)
Order(p, s) == IF s.raised \/ p = 0 THEN "ok"
               ELSE LET o == Traces[tid].steps[p] IN
                    IF s.lgL > o.lgL /\ ~(s.lgS > o.lgS) THEN "stress_not_strictly_increasing_in_the_load"
                    ELSE IF s.lgL > o.lgL /\ ~(s.lgD > o.lgD) THEN "stress_range_not_strictly_increasing_in_the_load_range"
                    ELSE "ok"
Init == tid \in 1..Len(Traces) /\ l = 0 /\ prev = 0 /\ verdict = "ok"
Step == /\ verdict = "ok" /\ l < Len(Traces[tid].steps)
        /\ LET s == Traces[tid].steps[l + 1]
               c == StepClause(Traces[tid], s)
           IN /\ verdict' = (IF c # "ok" THEN c ELSE Order(prev, s))
              /\ prev' = (IF s.raised THEN prev ELSE l + 1)
        /\ l' = l + 1 /\ UNCHANGED tid
Spec == Init /\ [][Step]_vars
Done == verdict # "ok" \/ l = Len(Traces[tid].steps)
Report == Done => PrintT(<<"V", tid, l, verdict>>)
=============================================================================

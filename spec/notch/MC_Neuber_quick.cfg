SPECIFICATION Spec
CONSTANTS
  Ms = {2, 3}
INVARIANT PositiveStiffness
INVARIANT RootPrimary
INVARIANT RootIsOdd
INVARIANT RootSecondaryIsMasingDoubled
INVARIANT Bracket
INVARIANT StrictlyIncreasing
INVARIANT NeuberProduct

------------------------------ MODULE MC_Neuber ------------------------------
(* Every admissible (m, K_p, q, l) of a small rational lattice with its exact stiffness ratio e: one state = one material/load pair
   whose exact root is q.  The dump is replayed into ExtendedNeuber (stress, strain, secondary branch, backward functions). *)
EXTENDS Neuber, TLC
CONSTANTS Ms
VARIABLES m, kp, q, l, e, above
vars == <<m, kp, q, l, e, above>>
Kps == {<<3, 2>>, <<2, 1>>, <<5, 2>>, <<3, 1>>, <<7, 2>>}
Qs == {<<1, 2>>, <<3, 4>>, <<1, 1>>, <<3, 2>>, <<2, 1>>}
Rhos == {<<5, 4>>, <<4, 3>>, <<3, 2>>, <<2, 1>>}          \* l / q
Ups == {<<5, 4>>, <<2, 1>>}                                \* larger loads l2 / l whose roots must lie strictly above q
Es1 == {<<10, 1>>, <<200, 1>>}                             \* K_p = 1: the root is the load itself, whatever the stiffness ratio
Init == /\ m \in Ms
        /\ \/ /\ kp \in Kps /\ q \in Qs /\ \E rho \in Rhos : l = RMul(q, rho)
              /\ (m >= 4 => (q \in {R1, R2} /\ kp[2] = 1))        \* larger exponents only on the integer part of the lattice (32-bit arithmetic)
              /\ Admissible(q, l, kp, m)
              /\ e = EFor(q, l, kp, m)
           \/ /\ kp = R1 /\ q \in Qs /\ l = q /\ e \in Es1
        /\ above = {RMul(l, u) : u \in Ups}
Next == UNCHANGED vars
Spec == Init /\ [][Next]_vars

PositiveStiffness == RLt(R0, e)
RootPrimary == FPrimary(q, l, kp, e, m) = R0
RootIsOdd == FPrimary(RNeg(q), RNeg(l), kp, e, m) = R0
RootSecondaryIsMasingDoubled == FSecondary(RMul(R2, q), RMul(R2, l), kp, e, m) = R0
Bracket == RLe(RDiv(l, kp), q) /\ RLe(q, l) /\ (kp = R1 <=> q = l)
StrictlyIncreasing == \A l2 \in above : RLt(G(q, e, m), Rhs(l2, kp, e, m))
NeuberProduct == G(q, e, m) = Rhs(l, kp, e, m)
=============================================================================

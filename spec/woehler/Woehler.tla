------------------------------- MODULE Woehler -------------------------------
(***************************************************************************)
(* materiallaws/woehlercurve.py on the log2 lattice.                        *)
(* Every quantity is a power of two and is represented by its exponent:     *)
(*   SD = 2^a, ND = 2^b, TS = 2^(2 ts), TN = 2^(2 tn), load = 2^x,           *)
(* failure probabilities are Phi((i - 2) z_0.9) for an integer index i       *)
(* (1, 2, 3 = 10 %, 50 %, 90 %; -2 and 6 lie 4 z_0.9 = 5.13 standard         *)
(* deviations out), for which the probit difference divided by 2 z_0.9 is    *)
(* d2/2 with d2 = goal - native.  k_2 = Inf is the constant Inf (also used for "infinite life").  *)
(* I: transform_to_failure_probability, _make_k, basquin_cycles/_load as     *)
(*    coded (below_limit = src < ref, k_2 branch, inf handling);             *)
(* D: the algebraic laws C08 lists, stated on exponents.                     *)
(***************************************************************************)
EXTENDS Integers, SeqX
CONSTANT KDen          \* slopes are k / KDen (k integer); exponents stay integers on the sub-lattice x - a in KDen*Z, ts in KDen*Z
Inf == 1000000

(* transform_to_failure_probability: SD' = SD / 10^((zn-zg) std(TS)),
   ND' = ND / 10^((zn-zg) std(TN)) * (SD'/SD)^(-k_1) *)
ShiftSD(a, ts, d2) == a + ts * d2
ShiftND(b, k1, ts, tn, d2) == b + tn * d2 - (k1 * (ts * d2)) \div KDen
Transform(c, pg) ==
  LET d2 == pg - c.p IN [c EXCEPT !.a = ShiftSD(c.a, c.ts, d2), !.b = ShiftND(c.b, c.k1, c.ts, c.tn, d2), !.p = pg]

(* _make_k(src, ref): k_1, replaced by k_2 where src < ref *)
MakeK(c, below) == IF below THEN c.k2 ELSE c.k1
(* basquin_cycles(load 2^x, pg) -> exponent of the cycle number, Inf = infinite life *)
Cycles(c, x, pg) ==
  LET w == Transform(c, pg)  k == MakeK(w, x < w.a)
  IN IF k = Inf THEN Inf ELSE w.b - (k * (x - w.a)) \div KDen
(* basquin_load(cycles 2^y, pg) -> exponent of the load; y must make the division exact *)
Load(c, y, pg) ==
  LET w == Transform(c, pg)  k == MakeK(w, y > w.b)      \* -cyc < -ND
  IN IF k = Inf THEN w.a ELSE w.a - (((y - w.b) * KDen) \div k)
LoadExact(c, y, pg) == LET w == Transform(c, pg)  k == MakeK(w, y > w.b) IN k = Inf \/ ((y - w.b) * KDen) % k = 0

MinerOriginal(c) == [c EXCEPT !.k2 = Inf]
MinerElementary(c) == [c EXCEPT !.k2 = c.k1]
MinerHaibach(c) == [c EXCEPT !.k2 = 2 * c.k1 - KDen]
=============================================================================

----------------------------- MODULE MC_Woehler -----------------------------
EXTENDS Woehler, TLC
CONSTANTS K1s, As, Bs, TSs, TNs, XSpan,
          Ps      \* failure probability indices: index i stands for Phi((i - 2) z_0.9): 1, 2, 3 = 10 %, 50 %, 90 %; -2 = 1.5e-7, 6 = 1 - 1.5e-7
PsQuick == {-2, 1, 2, 3}
PsThorough == {-2, 1, 2, 3, 6}
VARIABLES c, pg, x, out
vars == <<c, pg, x, out>>
K2s(k1) == {k1, 2 * k1 - KDen, k1 + 2 * KDen, Inf}
Curves == {[k1 |-> k1, k2 |-> k2, a |-> a, b |-> b, ts |-> ts, tn |-> tn, p |-> p] :
             k1 \in K1s, k2 \in UNION {K2s(k) : k \in K1s}, a \in As, b \in Bs, ts \in TSs, tn \in TNs, p \in Ps}
Out(cc, g, xx) ==
  LET w == Transform(cc, g)  n == Cycles(cc, xx, g)
  IN [sd |-> w.a, nd |-> w.b, cycles |-> n,
      load_back |-> IF n = Inf THEN Inf ELSE Load(cc, n, g),
      load_beyond |-> Load(cc, w.b + 1260, g)]              \* far beyond the knee (60 is divisible by every k)
Init == /\ c \in {cc \in Curves : cc.k2 \in K2s(cc.k1)} /\ pg \in Ps
        /\ x \in {Transform(c, pg).a + KDen * i : i \in (-XSpan)..XSpan}
        /\ out = Out(c, pg, x)
Next == UNCHANGED vars
Spec == Init /\ [][Next]_vars

w == Transform(c, pg)
InverseWhereFinite == out.cycles # Inf => (LoadExact(c, out.cycles, pg) /\ out.load_back = x)
NonIncreasing == \A x2 \in {x + KDen, x + 2 * KDen} : LET n1 == out.cycles  n2 == Cycles(c, x2, pg) IN n1 = Inf \/ (n2 # Inf /\ n2 <= n1)
KneeContinuous == Cycles(c, w.a, pg) = w.b
SlopeAbove == x >= w.a => out.cycles = w.b - (c.k1 * (x - w.a)) \div KDen
SlopeBelow == x < w.a => (IF c.k2 = Inf THEN out.cycles = Inf ELSE out.cycles = w.b - (c.k2 * (x - w.a)) \div KDen)
InfiniteBelowForOriginal == (c.k2 = Inf /\ x < w.a) => out.cycles = Inf /\ out.load_beyond = w.a
MinerOnlyChangesK2 ==
  /\ MinerOriginal(c) = [c EXCEPT !.k2 = Inf] /\ Cycles(MinerOriginal(c), x, pg) = (IF x < w.a THEN Inf ELSE out.cycles)
  /\ Cycles(MinerElementary(c), x, pg) = w.b - (c.k1 * (x - w.a)) \div KDen
  /\ Cycles(MinerHaibach(c), x, pg) = (IF x < w.a THEN w.b - ((2 * c.k1 - KDen) * (x - w.a)) \div KDen ELSE out.cycles)
GrowsWithProbability == \A g1, g2 \in Ps : g1 < g2 => LET n1 == Cycles(c, x, g1)  n2 == Cycles(c, x, g2) IN (n1 # Inf /\ n2 # Inf) => n1 <= n2
ScatterRatios ==
  /\ Transform(c, 3).a - Transform(c, 1).a = 2 * c.ts                      \* SD_90 / SD_10 = TS
  /\ LET xx == Transform(c, 3).a IN Cycles(c, xx, 3) - Cycles(c, xx, 1) = 2 * c.tn   \* N_90 / N_10 = TN (finite-life branch of both)
GroupLaw == \A q \in Ps : Transform(Transform(c, q), pg) = Transform(c, pg)
Identity == Transform(c, c.p) = c
=============================================================================

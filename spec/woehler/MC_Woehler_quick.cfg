SPECIFICATION Spec
CONSTANTS
  KDen = 1
  K1s = {2, 3, 5}
  As = {7}
  Bs = {20}
  TSs = {0, 1}
  TNs = {0, 1, 3}
  Ps <- PsQuick
  XSpan = 2
INVARIANT InverseWhereFinite
INVARIANT NonIncreasing
INVARIANT KneeContinuous
INVARIANT SlopeAbove
INVARIANT SlopeBelow
INVARIANT InfiniteBelowForOriginal
INVARIANT MinerOnlyChangesK2
INVARIANT GrowsWithProbability
INVARIANT ScatterRatios
INVARIANT GroupLaw
INVARIANT Identity

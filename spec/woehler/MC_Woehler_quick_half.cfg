SPECIFICATION Spec
CONSTANTS
  KDen = 2
  K1s = {5, 7}
  As = {7}
  Bs = {20}
  TSs = {0, 2}
  TNs = {0, 1, 3}
  Ps <- PsQuick
  XSpan = 2
INVARIANT InverseWhereFinite
INVARIANT NonIncreasing
INVARIANT KneeContinuous
INVARIANT SlopeAbove
INVARIANT SlopeBelow
INVARIANT InfiniteBelowForOriginal
INVARIANT MinerOnlyChangesK2
INVARIANT GrowsWithProbability
INVARIANT ScatterRatios
INVARIANT GroupLaw
INVARIANT Identity

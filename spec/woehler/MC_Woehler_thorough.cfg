SPECIFICATION Spec
CONSTANTS
  KDen = 1
  K1s = {2, 3, 5}
  As = {0, 7}
  Bs = {10, 20}
  TSs = {0, 1, 2}
  TNs = {0, 1, 3}
  Ps <- PsThorough
  XSpan = 3
INVARIANT InverseWhereFinite
INVARIANT NonIncreasing
INVARIANT KneeContinuous
INVARIANT SlopeAbove
INVARIANT SlopeBelow
INVARIANT InfiniteBelowForOriginal
INVARIANT MinerOnlyChangesK2
INVARIANT GrowsWithProbability
INVARIANT ScatterRatios
INVARIANT GroupLaw
INVARIANT Identity

SPECIFICATION Spec
CONSTANTS
  LenA = 2
  LenB = 2
INVARIANT OwnCallsOnly
CHECK_DEADLOCK FALSE

SPECIFICATION Spec
CONSTANTS
  LenA = 2
  LenB = 4
INVARIANT OwnCallsOnly
CHECK_DEADLOCK FALSE

------------------------------- MODULE SeqX -------------------------------
(* Small sequence / integer helpers shared by all pyLife specifications.   *)
EXTENDS Integers, Sequences, FiniteSets

Abs(x) == IF x < 0 THEN -x ELSE x
Sgn(x) == IF x > 0 THEN 1 ELSE IF x < 0 THEN -1 ELSE 0
Max2(a, b) == IF a > b THEN a ELSE b
Min2(a, b) == IF a < b THEN a ELSE b

LastOf(s)  == s[Len(s)]
FrontOf(s) == SubSeq(s, 1, Len(s) - 1)

(* ascending sequence of the positions p in 1..n that satisfy P *)
Positions(n, P(_)) == SelectSeq([i \in 1..n |-> i], P)

MapSeq(s, F(_)) == [i \in 1..Len(s) |-> F(s[i])]

RemoveAt(s, i) == SubSeq(s, 1, i - 1) \o SubSeq(s, i + 1, Len(s))
InsertAt(s, i, v) == SubSeq(s, 1, i - 1) \o <<v>> \o SubSeq(s, i, Len(s))   \* v becomes s'[i]

RECURSIVE SumSeq(_)
SumSeq(s) == IF s = <<>> THEN 0 ELSE s[1] + SumSeq(Tail(s))

(* bag (multiset) of a sequence as a function from its range to counts *)
BagOf(s) == LET R == {s[i] : i \in 1..Len(s)}
            IN [x \in R |-> Cardinality({i \in 1..Len(s) : s[i] = x})]

SeqMax(s) == CHOOSE x \in {s[i] : i \in 1..Len(s)} : \A j \in 1..Len(s) : s[j] <= x
SeqMin(s) == CHOOSE x \in {s[i] : i \in 1..Len(s)} : \A j \in 1..Len(s) : s[j] >= x

(* numpy argmax / argmin: first position of the extreme value (1-based) *)
ArgMax(s) == CHOOSE i \in 1..Len(s) : (\A j \in 1..Len(s) : s[j] <= s[i]) /\ (\A j \in 1..(i-1) : s[j] < s[i])
ArgMin(s) == CHOOSE i \in 1..Len(s) : (\A j \in 1..Len(s) : s[j] >= s[i]) /\ (\A j \in 1..(i-1) : s[j] > s[i])

(* all sequences over S with length in lo..hi *)
SeqsUpTo(S, lo, hi) == UNION {[1..n -> S] : n \in lo..hi}
=============================================================================

SPECIFICATION Spec
CONSTANTS
  LenA = 3
  LenB = 3
INVARIANT OwnCallsOnly
CHECK_DEADLOCK FALSE

-------------------------------- MODULE Rat --------------------------------
(* Normalised rationals <<num, den>> with den > 0 (small operands: TLC integers are 32 bit). *)
EXTENDS Integers
RECURSIVE GCD(_, _)
GCD(a, b) == IF b = 0 THEN (IF a < 0 THEN -a ELSE a) ELSE GCD(b, a % b)
Norm(n, d) == LET s == IF d < 0 THEN -1 ELSE 1  g == GCD(IF n < 0 THEN -n ELSE n, IF d < 0 THEN -d ELSE d)
              IN IF g = 0 THEN <<0, 1>> ELSE <<(s * n) \div g, (s * d) \div g>>
RAdd(p, q) == Norm(p[1] * q[2] + q[1] * p[2], p[2] * q[2])
RSub(p, q) == Norm(p[1] * q[2] - q[1] * p[2], p[2] * q[2])
RMul(p, q) == Norm(p[1] * q[1], p[2] * q[2])
RDiv(p, q) == Norm(p[1] * q[2], p[2] * q[1])
RLe(p, q) == p[1] * q[2] <= q[1] * p[2]
RLt(p, q) == p[1] * q[2] < q[1] * p[2]
RInt(n) == <<n, 1>>
RFloor(p) == p[1] \div p[2]          \* TLC's \div floors
RCeil(p) == -((-p[1]) \div p[2])
=============================================================================

-------------------------------- MODULE Rat --------------------------------
(* Normalised rationals <<num, den>> with den > 0 (small operands: TLC integers are 32 bit). *)
EXTENDS Integers
RECURSIVE GCD(_, _)
GCD(a, b) == IF b = 0 THEN (IF a < 0 THEN -a ELSE a) ELSE GCD(b, a % b)
Norm(n, d) == LET s == IF d < 0 THEN -1 ELSE 1  g == GCD(IF n < 0 THEN -n ELSE n, IF d < 0 THEN -d ELSE d)
              IN IF g = 0 THEN <<0, 1>> ELSE <<(s * n) \div g, (s * d) \div g>>
(* operands are cancelled BEFORE multiplying (TLC integers are 32 bit and overflow is an error, never a wrong value) *)
AbsI(a) == IF a < 0 THEN -a ELSE a
RAdd(p, q) == LET g == GCD(p[2], q[2]) IN Norm(p[1] * (q[2] \div g) + q[1] * (p[2] \div g), (p[2] \div g) * q[2])
RSub(p, q) == LET g == GCD(p[2], q[2]) IN Norm(p[1] * (q[2] \div g) - q[1] * (p[2] \div g), (p[2] \div g) * q[2])
RMul(p, q) == LET g1 == GCD(AbsI(p[1]), q[2])  g2 == GCD(AbsI(q[1]), p[2])
                  a == IF g1 = 0 THEN 1 ELSE g1      b == IF g2 = 0 THEN 1 ELSE g2
              IN Norm((p[1] \div a) * (q[1] \div b), (p[2] \div b) * (q[2] \div a))
RDiv(p, q) == RMul(p, IF q[1] < 0 THEN <<-q[2], -q[1]>> ELSE <<q[2], q[1]>>)
RLe(p, q) == LET g == GCD(p[2], q[2]) IN p[1] * (q[2] \div g) <= q[1] * (p[2] \div g)
RLt(p, q) == LET g == GCD(p[2], q[2]) IN p[1] * (q[2] \div g) < q[1] * (p[2] \div g)
RInt(n) == <<n, 1>>
RFloor(p) == p[1] \div p[2]          \* TLC's \div floors
RCeil(p) == -((-p[1]) \div p[2])
=============================================================================

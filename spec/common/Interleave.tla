----------------------------- MODULE Interleave -----------------------------
(***************************************************************************)
(* Two objects of the same class alive at the same time, each driven through *)
(* its own call history; the calls arrive in any merge order.  An object's   *)
(* state is a function of ITS OWN calls only (here: their number), whatever  *)
(* the other object was asked in between -- no state is shared through the   *)
(* class, the module or a cache.  TLC enumerates the merge orders; the        *)
(* harness executes every order on two real objects and requires each to     *)
(* end (and to answer along the way) exactly as it does alone.               *)
(***************************************************************************)
EXTENDS Integers, Sequences
CONSTANTS LenA, LenB
VARIABLES ia, ib, order
vars == <<ia, ib, order>>
Init == ia = 0 /\ ib = 0 /\ order = <<>>
StepA == ia < LenA /\ ia' = ia + 1 /\ order' = Append(order, "A") /\ UNCHANGED ib
StepB == ib < LenB /\ ib' = ib + 1 /\ order' = Append(order, "B") /\ UNCHANGED ia
Next == StepA \/ StepB
Spec == Init /\ [][Next]_vars
Count(x) == Len(SelectSeq(order, LAMBDA y : y = x))
OwnCallsOnly == ia = Count("A") /\ ib = Count("B")
=============================================================================

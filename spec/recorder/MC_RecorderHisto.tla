-------------------------- MODULE MC_RecorderHisto --------------------------
EXTENDS RecorderHisto
ValsMC == -2..2
EdgesA == <<-2, 0, 2>>
EdgesB == <<-2, -1, 1, 2>>
EdgesNarrow == <<-1, 0, 1>>      \* values -2 and 2 lie outside
=============================================================================

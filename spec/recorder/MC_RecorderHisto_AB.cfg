SPECIFICATION Spec
CONSTANTS
  Vals <- ValsMC
  MaxCycles = 3
  EdgesFrom <- EdgesA
  EdgesTo <- EdgesB
INVARIANT Conservation
CHECK_DEADLOCK FALSE

SPECIFICATION Spec
CONSTANTS
  Vals <- ValsMC
  MaxCycles = 3
  EdgesFrom <- EdgesNarrow
  EdgesTo <- EdgesB
INVARIANT Conservation
CHECK_DEADLOCK FALSE

SPECIFICATION Spec
CONSTANTS
  Vals <- ValsMC
  MaxCycles = 3
  EdgesFrom <- EdgesA
  EdgesTo <- EdgesB
INVARIANT LabelsNameTheCountingBins
CHECK_DEADLOCK FALSE

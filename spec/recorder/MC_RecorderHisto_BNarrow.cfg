SPECIFICATION Spec
CONSTANTS
  Vals <- ValsMC
  MaxCycles = 3
  EdgesFrom <- EdgesB
  EdgesTo <- EdgesNarrow
INVARIANT Conservation
CHECK_DEADLOCK FALSE

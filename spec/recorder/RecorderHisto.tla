---------------------------- MODULE RecorderHisto ----------------------------
(***************************************************************************)
(* LoopValueRecorder (stress/rainflow/recorders.py): closed cycles are       *)
(* recorded call by call (record_values) and binned on demand into a         *)
(* from/to histogram whose bins are labelled with intervals.                 *)
(*   I   what the code does: numpy.histogram2d counting -- a value v falls   *)
(*       into bin k iff edges[k] <= v < edges[k+1], the LAST bin also holds  *)
(*       its upper edge; values outside the edges are not counted            *)
(*   D   what the interval labels say: pandas.IntervalIndex.from_breaks      *)
(*       labels bin k with (edges[k], edges[k+1]] -- closed on the right     *)
(* The recorder state is the list of recorded cycles; Record appends one     *)
(* call's cycles (any split of the same cycles into calls must give the same *)
(* histogram).                                                               *)
(***************************************************************************)
EXTENDS Integers, Sequences, FiniteSets
CONSTANTS Vals, MaxCycles, EdgesFrom, EdgesTo
VARIABLES cyc, calls      \* cyc: all recorded cycles <<from, to>> in order; calls: number of cycles per record_values call
vars == <<cyc, calls>>
Init == cyc = <<>> /\ calls = <<>>
RecordOne == \E f \in Vals, t \in Vals : f # t /\ cyc' = Append(cyc, <<f, t>>) /\ calls' = Append(calls, 1)
(* the same call may also carry the cycle together with the previous one *)
RecordJoined == \E f \in Vals, t \in Vals : f # t /\ calls # <<>> /\ cyc' = Append(cyc, <<f, t>>)
                  /\ calls' = [calls EXCEPT ![Len(calls)] = @ + 1]
Next == Len(cyc) < MaxCycles /\ (RecordOne \/ RecordJoined)
Spec == Init /\ [][Next]_vars
NB(e) == Len(e) - 1
(* I: numpy's bin of a value, 0 = not counted *)
BinI(v, e) == IF v < e[1] \/ v > e[Len(e)] THEN 0
              ELSE IF v = e[Len(e)] THEN NB(e)
              ELSE CHOOSE k \in 1..NB(e) : e[k] <= v /\ v < e[k + 1]
(* D: the bin whose interval label (e[k], e[k+1]] contains the value, 0 = none *)
BinD(v, e) == IF \E k \in 1..NB(e) : e[k] < v /\ v <= e[k + 1] THEN CHOOSE k \in 1..NB(e) : e[k] < v /\ v <= e[k + 1] ELSE 0
Count(i, j) == Cardinality({k \in 1..Len(cyc) : BinI(cyc[k][1], EdgesFrom) = i /\ BinI(cyc[k][2], EdgesTo) = j})
Hist == [i \in 1..NB(EdgesFrom) |-> [j \in 1..NB(EdgesTo) |-> Count(i, j)]]
Counted == {k \in 1..Len(cyc) : BinI(cyc[k][1], EdgesFrom) # 0 /\ BinI(cyc[k][2], EdgesTo) # 0}
RECURSIVE SumRow(_, _), SumAll(_)
SumRow(r, j) == IF j = 0 THEN 0 ELSE r[j] + SumRow(r, j - 1)
SumAll(i) == IF i = 0 THEN 0 ELSE SumRow(Hist[i], NB(EdgesTo)) + SumAll(i - 1)
(* every cycle inside the edges is counted exactly once, nothing else is *)
Conservation == SumAll(NB(EdgesFrom)) = Cardinality(Counted)
(* the histogram does not depend on how the cycles were split into calls (Hist is a function of cyc alone: holds by construction; the replay checks the code) *)
(* D = I: looking a cycle up by its values through the interval labels finds the bin it was counted in -- TLC's counterexample is reported as an observation *)
LabelsNameTheCountingBins == \A k \in 1..Len(cyc) : BinD(cyc[k][1], EdgesFrom) = BinI(cyc[k][1], EdgesFrom) /\ BinD(cyc[k][2], EdgesTo) = BinI(cyc[k][2], EdgesTo)
=============================================================================

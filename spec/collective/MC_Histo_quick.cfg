SPECIFICATION Spec
CONSTANTS
  MaxRows = 2
INVARIANT CollectiveConsistent
INVARIANT ExactlyOneClass
INVARIANT RangeIsMarginal
INVARIANT RebinConserves
INVARIANT RebinIdentity

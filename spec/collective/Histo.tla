-------------------------------- MODULE Histo --------------------------------
(***************************************************************************)
(* stress/collective/load_collective.py (LoadCollective), utils/histogram.py *)
(* (rebin_histogram, combine_histogram).  Loads are integers, derived        *)
(* quantities are kept doubled (amp2 = 2*amplitude = |from - to| = range,    *)
(* mean2 = 2*mean = from + to) so that everything stays integral; histogram  *)
(* contents after re-binning are exact rationals.                            *)
(***************************************************************************)
EXTENDS Integers, Sequences, FiniteSets, SeqX, Rat

(* ---- collective: a row is <<from, to>> ---- *)
Amp2(r) == Abs(r[1] - r[2])
Mean2(r) == r[1] + r[2]
Upper(r) == Max2(r[1], r[2])
Lower(r) == Min2(r[1], r[2])
(* R = lower / upper with the code's conventions: 0/0 -> 0 (fillna), x/0 -> +-inf *)
RRatio(r) == IF Upper(r) = 0 THEN (IF Lower(r) = 0 THEN <<"num", <<0, 1>>>> ELSE <<"inf", IF Lower(r) < 0 THEN -1 ELSE 1>>)
             ELSE <<"num", Norm(Lower(r), Upper(r))>>
(* the same cycle described by range / mean: range = amp2, mean = mean2 / 2  =>  from = lower, to = upper *)
FromRangeMean(r) == <<Lower(r), Upper(r)>>
Scale(r, c) == <<c * r[1], c * r[2]>>
Shift(r, d) == <<r[1] + d, r[2] + d>>

(* ---- numpy histogram: edges e[1] < ... < e[n+1]; class i = [e[i], e[i+1]) and the last class is closed ---- *)
ClassI(edges, v) ==       \* 0 = outside
  LET n == Len(edges) - 1
      C == {i \in 1..n : edges[i] <= v /\ (IF i = n THEN v <= edges[i+1] ELSE v < edges[i+1])}
  IN IF C = {} THEN 0 ELSE CHOOSE i \in C : TRUE
NumClasses(edges, v) == LET n == Len(edges) - 1 IN Cardinality({i \in 1..n : edges[i] <= v /\ (IF i = n THEN v <= edges[i+1] ELSE v < edges[i+1])})
Covered(edges, v) == edges[1] <= v /\ v <= edges[Len(edges)]
Hist(edges, vals) == [i \in 1..(Len(edges) - 1) |-> Cardinality({k \in 1..Len(vals) : ClassI(edges, vals[k]) = i})]
Hist2(e1, e2, rows) == [i \in 1..(Len(e1) - 1) |-> [j \in 1..(Len(e2) - 1) |->
                          Cardinality({k \in 1..Len(rows) : ClassI(e1, Amp2(rows[k])) = i /\ ClassI(e2, Mean2(rows[k])) = j})]]

(* ---- rebin_histogram: overlap-proportional redistribution ---- *)
Overlap(l1, r1, l2, r2) == Max2(0, Min2(r1, r2) - Max2(l1, l2))
(* a histogram is a LIST of classes <<left, right, count>>: the classes need not be sorted, adjacent or disjoint
   (combine_histogram keeps different binnings side by side, so an enclosing class may sit next to the classes it contains);
   every class spreads its count over the target classes in proportion to the overlap *)
RebinC(cls, dst) ==
  [j \in 1..(Len(dst) - 1) |->
     LET RECURSIVE Acc(_)
         Acc(i) == IF i = 0 THEN <<0, 1>>
                   ELSE RAdd(Acc(i - 1), Norm(cls[i][3] * Overlap(dst[j], dst[j+1], cls[i][1], cls[i][2]), cls[i][2] - cls[i][1]))
     IN Acc(Len(cls))]
ClassesOfEdges(h, src) == [i \in 1..Len(h) |-> <<src[i], src[i+1], h[i]>>]
Rebin(h, src, dst) == RebinC(ClassesOfEdges(h, src), dst)    \* h: counts per source class, src/dst: edge sequences -> sequence of rationals
RECURSIVE RSum(_)
RSum(s) == IF s = <<>> THEN <<0, 1>> ELSE RAdd(s[1], RSum(Tail(s)))
Covers(dst, src) == dst[1] <= src[1] /\ src[Len(src)] <= dst[Len(dst)]
=============================================================================

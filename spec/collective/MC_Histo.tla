------------------------------ MODULE MC_Histo ------------------------------
EXTENDS Histo, TLC
CONSTANTS MaxRows
VARIABLES part, inp, out
vars == <<part, inp, out>>
Loads == -3..3
RowsSet == UNION {[1..n -> Loads \X Loads] : n \in 1..MaxRows}
EdgeSets == {<<0, 2, 4, 6>>, <<0, 6>>, <<1, 2, 5>>, <<0, 1, 2, 3, 4, 5, 6>>, <<2, 4>>}
MeanEdges == {<<-6, 0, 6>>, <<-6, -2, 2, 6>>, <<-2, 2>>}
SrcEdges == {<<0, 2, 4>>, <<0, 1, 4, 6>>, <<1, 3>>}
DstEdges == {<<0, 2, 4>>, <<0, 4>>, <<0, 1, 2, 3, 4, 5, 6>>, <<-1, 3, 7>>, <<0, 6>>, <<0, 3, 6>>, <<1, 3>>, <<2, 3>>}
Counts == {0, 1, 3}
Encl == {0, 5}          \* count of an additional source class that ENCLOSES all the others (0: none) — nested source classes
SrcClasses(i) == IF i.encl = 0 THEN ClassesOfEdges(i.h, i.src)
                 ELSE Append(ClassesOfEdges(i.h, i.src), <<i.src[1], i.src[Len(i.src)], i.encl>>)
Init ==
  \/ /\ part = "collective" /\ inp \in [row : Loads \X Loads, c : {-2, 2, 3}, d : {-3, 5}]
     /\ out = [amp2 |-> Amp2(inp.row), mean2 |-> Mean2(inp.row), upper |-> Upper(inp.row), lower |-> Lower(inp.row), R |-> RRatio(inp.row),
               scaled |-> Scale(inp.row, inp.c), shifted |-> Shift(inp.row, inp.d)]
  \/ /\ part = "hist" /\ inp \in [rows : RowsSet, e : EdgeSets, em : MeanEdges]
     /\ out = [range |-> Hist(inp.e, [k \in 1..Len(inp.rows) |-> Amp2(inp.rows[k])]), matrix |-> Hist2(inp.e, inp.em, inp.rows)]
  \/ /\ part = "rebin" /\ inp \in {[h |-> h, src |-> s, dst |-> d, encl |-> c] : s \in SrcEdges, d \in DstEdges, h \in UNION {[1..n -> Counts] : n \in 1..3}, c \in Encl}
     /\ Len(inp.h) = Len(inp.src) - 1
     /\ out = [rebinned |-> RebinC(SrcClasses(inp), inp.dst)]
Next == UNCHANGED vars
Spec == Init /\ [][Next]_vars

(* consistency identities of a collective *)
CollectiveConsistent == part = "collective" =>
  /\ out.upper - out.lower = out.amp2 /\ out.upper + out.lower = out.mean2
  /\ LET rm == FromRangeMean(inp.row) IN Amp2(rm) = out.amp2 /\ Mean2(rm) = out.mean2 /\ Upper(rm) = out.upper /\ Lower(rm) = out.lower /\ RRatio(rm) = out.R
  /\ Amp2(out.scaled) = Abs(inp.c) * out.amp2 /\ Mean2(out.scaled) = inp.c * out.mean2
  /\ Amp2(out.shifted) = out.amp2 /\ Mean2(out.shifted) = out.mean2 + 2 * inp.d
(* each cycle inside the covered range is in exactly one class; counts sum to the number of covered cycles *)
ExactlyOneClass == part = "hist" =>
  /\ \A k \in 1..Len(inp.rows) : NumClasses(inp.e, Amp2(inp.rows[k])) = (IF Covered(inp.e, Amp2(inp.rows[k])) THEN 1 ELSE 0)
  /\ SumSeq(out.range) = Cardinality({k \in 1..Len(inp.rows) : Covered(inp.e, Amp2(inp.rows[k]))})
(* the range histogram is the marginal of the range/mean histogram when all means are covered *)
RangeIsMarginal == part = "hist" =>
  ((\A k \in 1..Len(inp.rows) : Covered(inp.em, Mean2(inp.rows[k]))) =>
     \A i \in 1..Len(out.range) : out.range[i] = SumSeq(out.matrix[i]))
(* re-binning conserves the total for covering gap-free binnings, is the identity for the same binning, and composes on totals *)
RebinConserves == part = "rebin" => (Covers(inp.dst, inp.src) => RSum(out.rebinned) = <<SumSeq(inp.h) + inp.encl, 1>>)
RebinIdentity == (part = "rebin" /\ inp.dst = inp.src /\ inp.encl = 0) => out.rebinned = [i \in 1..Len(inp.h) |-> <<inp.h[i], 1>>]
=============================================================================

SPECIFICATION Spec
CONSTANTS
  MaxRows = 3
INVARIANT CollectiveConsistent
INVARIANT ExactlyOneClass
INVARIANT RangeIsMarginal
INVARIANT RebinConserves
INVARIANT RebinIdentity

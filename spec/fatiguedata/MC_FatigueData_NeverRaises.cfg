SPECIFICATION Spec
CONSTANTS
  Loads = {1, 2, 3, 4}
  MaxTests = 4
  MaxDepth = 2
  SetValues = {1, 4, 5}
INVARIANT NeverRaises
CHECK_DEADLOCK FALSE

SPECIFICATION Spec
CONSTANTS
  Loads = {1, 2, 3, 4}
  MaxTests = 4
  MaxDepth = 3
  SetValues = {1, 4, 5}
INVARIANT ZonesDisjoint
INVARIANT FiniteZoneHoldsFracturesOnly
INVARIANT ZonesWithinRows
INVARIANT DropKeepsFractures
INVARIANT TransitionNotBelowZero
INVARIANT LazyValueSeparates
CHECK_DEADLOCK FALSE

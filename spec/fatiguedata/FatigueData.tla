----------------------------- MODULE FatigueData -----------------------------
(***************************************************************************)
(* The FatigueData accessor (materialdata/woehler/fatigue_data.py) as the    *)
(* state machine it is: a table of tests (load level, fracture / run-out)    *)
(* plus three lazily computed, settable attributes                           *)
(*     tr     the finite/infinite transition load ("fatigue limit" start     *)
(*            value), None until first asked for or set                      *)
(*     fin    the finite zone   (set of row labels)                          *)
(*     inf    the infinite zone (set of row labels)                          *)
(* and the public operations that read or change them:                        *)
(*     Query(tr | fin | inf)          lazy computation on first use           *)
(*     Conservative                   conservative_finite_infinite_transition *)
(*     Set(x)                         set_finite_infinite_transition          *)
(*     Drop                           irrelevant_runouts_dropped (may return  *)
(*                                    a NEW object on fewer rows)             *)
(* One action per public call; every action appends the call and what it     *)
(* returned to hist, which the harness replays on the real object.           *)
(* Loads are small integers, the transition is an exact fraction <<num,den>>. *)
(***************************************************************************)
EXTENDS Integers, Sequences, FiniteSets
CONSTANTS Loads, MaxTests, MaxDepth, SetValues     \* SetValues: transition loads a user sets, in HALVES of a load unit
VARIABLES tests, tr, fin, inf, known, hist, tests0     \* tests0: the table the object was created on (Drop hands on fewer rows)
vars == <<tests, tr, fin, inf, known, hist, tests0>>
None == <<>>
Ids == DOMAIN tests
Fr == {i \in Ids : tests[i].frac}
Ro == Ids \ Fr
LoadsOf(S) == {tests[i].load : i \in S}
Mixed == LoadsOf(Fr) \cap LoadsOf(Ro)
NonFr == LoadsOf(Ro) \ LoadsOf(Fr)                \* = pure_runout_loads = non_fractured_loads
MaxS(S) == CHOOSE x \in S : \A y \in S : y <= x
MinS(S) == CHOOSE x \in S : \A y \in S : y >= x
RECURSIVE SumS(_)
SumS(S) == IF S = {} THEN 0 ELSE LET x == CHOOSE y \in S : TRUE IN x + SumS(S \ {x})
(* _calc_finite_zone_manual(limit), limit = num/den *)
FinOf(num, den) == {i \in Fr : tests[i].load * den > num}
InfOf(num, den) == {i \in Ids : tests[i].load * den <= num}
(* _calc_finite_zone *)
ZoneFin == IF Ro # {} THEN FinOf(MaxS(LoadsOf(Ro)), 1) ELSE Ids
ZoneInf == IF Ro # {} THEN InfOf(MaxS(LoadsOf(Ro)), 1) ELSE {}
(* _calc_finite_infinite_transition; the guess from the two highest load levels needs two load levels *)
CalcRaises == Ro # {} /\ ZoneFin = {} /\ Cardinality(LoadsOf(Ids)) < 2
CalcTr == IF Ro = {} THEN <<0, 1>>
          ELSE IF ZoneFin # {} THEN <<MinS(LoadsOf(ZoneFin)) + MaxS(LoadsOf(Ro)), 2>>
          ELSE LET m1 == MaxS(LoadsOf(Ids))  m0 == MaxS(LoadsOf(Ids) \ {m1}) IN <<3 * m1 - m0, 2>>
Log(name, arg, ret) == hist' = Append(hist, <<name, arg, ret>>)
Valid(t) == Cardinality({i \in DOMAIN t : t[i].frac}) >= 2        \* _validate: a fracture, and a variance in the fracture cycles
RECURSIVE SeqsUpTo(_)
Rows == [load : Loads, frac : BOOLEAN]
NonDecreasing(t) == \A i \in 1..(Len(t) - 1) : t[i].load < t[i + 1].load \/ (t[i].load = t[i + 1].load /\ (t[i].frac => t[i + 1].frac))
SeqsUpTo(n) == IF n = 0 THEN {<<>>} ELSE LET S == SeqsUpTo(n - 1) IN S \cup {Append(s, r) : s \in {x \in S : Len(x) = n - 1}, r \in Rows}
Init == /\ tests \in {t \in SeqsUpTo(MaxTests) : Valid(t) /\ NonDecreasing(t)}     \* the row order is varied by the harness
        /\ tr = None /\ fin = {} /\ inf = {} /\ known = FALSE /\ hist = <<>> /\ tests0 = tests
Ret(kind, t, f, n) == CASE kind = "tr" -> <<"value", t>> [] kind = "fin" -> <<"rows", f>> [] kind = "inf" -> <<"rows", n>>
Query(kind) ==
  /\ IF tr = None
       THEN /\ fin' = ZoneFin /\ inf' = ZoneInf /\ known' = TRUE
            /\ tr' = IF CalcRaises THEN None ELSE CalcTr
            /\ Log("query", kind, IF CalcRaises THEN <<"raised", "IndexError">> ELSE Ret(kind, CalcTr, ZoneFin, ZoneInf))
       ELSE /\ UNCHANGED <<tr, fin, inf, known>>
            /\ Log("query", kind, Ret(kind, tr, fin, inf))
  /\ UNCHANGED tests
Conservative ==
  LET amps == Mixed \cup (IF NonFr # {} THEN {MaxS(NonFr)} ELSE {}) IN
  /\ IF amps # {} THEN tr' = <<SumS(amps), Cardinality(amps)>> /\ fin' = ZoneFin /\ inf' = ZoneInf /\ known' = TRUE
                  ELSE UNCHANGED <<tr, fin, inf, known>>
  /\ Log("conservative", 0, <<"self", 0>>) /\ UNCHANGED tests
SetTr(x) == /\ tr' = <<x, 2>> /\ fin' = FinOf(x, 2) /\ inf' = InfOf(x, 2) /\ known' = TRUE
            /\ Log("set", x, <<"self", 0>>) /\ UNCHANGED tests
Drop ==
  IF Cardinality(NonFr) > 1 /\ MaxS(NonFr) < MinS(LoadsOf(Fr))
    THEN /\ tests' = [i \in {j \in Ids : tests[j].load >= MaxS(NonFr)} |-> tests[i]]
         /\ tr' = None /\ fin' = {} /\ inf' = {} /\ known' = FALSE /\ Log("drop", 0, <<"new", 0>>)
    ELSE UNCHANGED <<tests, tr, fin, inf, known>> /\ Log("drop", 0, <<"self", 0>>)
Next == /\ Len(hist) < MaxDepth /\ UNCHANGED tests0
        /\ \/ \E k \in {"tr", "fin", "inf"} : Query(k)
           \/ Conservative
           \/ \E x \in SetValues : SetTr(x)
           \/ Drop
Spec == Init /\ [][Next]_vars
(* what holds in every reachable state *)
ZonesDisjoint == known => fin \cap inf = {}
FiniteZoneHoldsFracturesOnly == known => fin \subseteq Fr
ZonesWithinRows == fin \subseteq Ids /\ inf \subseteq Ids
DropKeepsFractures == Cardinality(Fr) >= 2
TransitionNotBelowZero == tr # None => tr[1] >= 0
(* the lazily computed start value lies strictly between the highest run-out level and the lowest finite-zone level *)
LazyValueSeparates == (known /\ tr # None /\ hist # <<>> /\ \A k \in 1..Len(hist) : hist[k][1] \in {"query", "drop"}) /\ Ro # {} /\ fin # {}
                        => MaxS(LoadsOf(Ro)) * tr[2] < tr[1] /\ tr[1] < MinS(LoadsOf(fin)) * tr[2]
(* what the doc strings say -- checked separately, TLC's counterexample is reported as an observation:
   "finite_zone: all the tests with load levels above finite_infinite_transition", "infinite_zone: ... below" *)
DocZones == (known /\ tr # None) => /\ fin = {i \in Ids : tests[i].load * tr[2] > tr[1]}
                                     /\ inf = {i \in Ids : tests[i].load * tr[2] < tr[1]}
DocZonesFractures == (known /\ tr # None) => fin = {i \in Fr : tests[i].load * tr[2] > tr[1]}
NeverRaises == \A k \in 1..Len(hist) : hist[k][3][1] # "raised"
=============================================================================

SPECIFICATION Spec
CONSTANTS
  MaxChunk = 4
  MaxSamples = 9
  MaxCalls = 4
INVARIANT Contiguous
INVARIANT CursorIsCount

------------------------------ MODULE Generator ------------------------------
(***************************************************************************)
(* stress/timesignal.py TimeSignalGenerator as a cursor over ONE fixed        *)
(* signal S (a sum of sines fixed at construction): query(n) delivers the     *)
(* next n samples S[pos .. pos+n-1] and advances the cursor; reset() puts it  *)
(* back to 0 ("a resetted generator behaves like a new generator").  The      *)
(* signal itself is uninterpreted: samples are identified by their index.     *)
(* Property ("the newly delivered samples will smoothly attach to the         *)
(* previously queried ones"): whatever the history of queries and resets,     *)
(* the samples delivered since the last reset are S[0], S[1], ... in order,   *)
(* each exactly once.                                                         *)
(***************************************************************************)
EXTENDS Integers, Sequences
CONSTANTS MaxChunk, MaxSamples, MaxCalls
VARIABLES pos, delivered, hist
vars == <<pos, delivered, hist>>
Init == pos = 0 /\ delivered = <<>> /\ hist = <<>>
Query(n) == /\ Len(hist) < MaxCalls /\ pos + n <= MaxSamples
            /\ delivered' = delivered \o [i \in 1..n |-> pos + i - 1]
            /\ pos' = pos + n
            /\ hist' = Append(hist, <<"query", n>>)
Reset == /\ Len(hist) < MaxCalls /\ hist # <<>> /\ hist[Len(hist)][1] # "reset"
         /\ pos' = 0 /\ delivered' = <<>>
         /\ hist' = Append(hist, <<"reset", 0>>)
Next == (\E n \in 1..MaxChunk : Query(n)) \/ Reset
Spec == Init /\ [][Next]_vars
Contiguous == delivered = [i \in 1..Len(delivered) |-> i - 1]
CursorIsCount == pos = Len(delivered)
=============================================================================

SPECIFICATION Spec
CONSTANTS
  Dims <- DimsQuick
  Schemes = {"contiguous", "gaps", "reversed", "scattered", "offset"}
INVARIANT IdsInjective
INVARIANT InteriorNodesHaveEightElements
INVARIANT BoundaryCount

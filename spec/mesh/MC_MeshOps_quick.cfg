SPECIFICATION Spec
CONSTANTS
  Dims <- DimsQuick
  Schemes = {"contiguous", "gaps", "reversed", "scattered"}
INVARIANT IdsInjective
INVARIANT InteriorNodesHaveEightElements
INVARIANT BoundaryCount

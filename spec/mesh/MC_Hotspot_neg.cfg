SPECIFICATION Spec
CONSTANTS
  NE = 2
  NN = 3
  MaxEntries = 3
  Values <- ValuesNonPositive
INVARIANT RegionGrowingIsComponents

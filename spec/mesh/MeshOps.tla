-------------------------------- MODULE MeshOps --------------------------------
(***************************************************************************)
(* Configuration space for the mesh operators (mesh/gradient.py, surface.py, *)
(* meshmapping.py): hexahedral block meshes nx x ny x nz on the integer       *)
(* lattice under every combination of node numbering, element numbering and  *)
(* row order, with what the operators must return for them:                   *)
(*   - the nodal gradient of a linear field is the field's constant gradient  *)
(*     at EVERY node (so the expectation does not depend on the numbering),   *)
(*   - surface detection flags exactly the nodes with a lattice coordinate    *)
(*     at 0 or at its maximum.                                                *)
(* The spec owns the numbering schemes (ids with gaps, reversed, scattered);  *)
(* the harness builds the frames from the dumped states.                      *)
(***************************************************************************)
EXTENDS Integers, Sequences, FiniteSets, SeqX
NodeCount(d) == (d[1] + 1) * (d[2] + 1) * (d[3] + 1)
ElemCount(d) == d[1] * d[2] * d[3]
NodeLin(d, c) == c[1] + (d[1] + 1) * (c[2] + (d[2] + 1) * c[3])          \* 0-based linear index of lattice node c = <<i,j,k>>
ElemLin(d, c) == c[1] + d[1] * (c[2] + d[2] * c[3])
Id(scheme, lin, count) ==
  CASE scheme = "contiguous" -> lin + 1
    [] scheme = "gaps"       -> 7 + 10 * lin
    [] scheme = "reversed"   -> count - lin
    [] scheme = "scattered"  -> ((lin * 7) % 37) * 3 + 5               \* injective for count <= 37
    [] scheme = "zero_based" -> lin
    [] scheme = "offset"     -> lin + 101                              \* contiguous, ascending, but not starting at 1
LatticeNodes(d) == {<<i, j, k>> : i \in 0..d[1], j \in 0..d[2], k \in 0..d[3]}
LatticeCells(d) == {<<i, j, k>> : i \in 0..(d[1]-1), j \in 0..(d[2]-1), k \in 0..(d[3]-1)}
(* corner order of a hexahedron as gradient_3D expects it *)
Corners == << <<0,0,0>>, <<1,0,0>>, <<1,1,0>>, <<0,1,0>>, <<0,0,1>>, <<1,0,1>>, <<1,1,1>>, <<0,1,1>> >>
HexNodes(cell) == [a \in 1..8 |-> <<cell[1] + Corners[a][1], cell[2] + Corners[a][2], cell[3] + Corners[a][3]>>]
OnBoundary(d, c) == c[1] \in {0, d[1]} \/ c[2] \in {0, d[2]} \/ c[3] \in {0, d[3]}
Boundary(d) == {c \in LatticeNodes(d) : OnBoundary(d, c)}
ElementsAt(d, c) == {cell \in LatticeCells(d) : \E a \in 1..8 : HexNodes(cell)[a] = c}
=============================================================================

SPECIFICATION Spec
CONSTANTS
  Dims <- DimsThorough
  Schemes = {"contiguous", "gaps", "reversed", "scattered", "offset", "zero_based"}
INVARIANT IdsInjective
INVARIANT InteriorNodesHaveEightElements
INVARIANT BoundaryCount

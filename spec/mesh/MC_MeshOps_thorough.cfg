SPECIFICATION Spec
CONSTANTS
  Dims <- DimsThorough
  Schemes = {"contiguous", "gaps", "reversed", "scattered", "zero_based"}
INVARIANT IdsInjective
INVARIANT InteriorNodesHaveEightElements
INVARIANT BoundaryCount

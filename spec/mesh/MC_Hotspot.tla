------------------------------ MODULE MC_Hotspot ------------------------------
EXTENDS Hotspot, TLC
CONSTANTS NE, NN, MaxEntries, Values
ValuesNonPositive == {-4, -1, 0}      \* fields whose maximum is not positive (threshold = limit_frac * max as coded: nothing but the maximum itself can reach it for frac < 1 ... )
ValuesMixed == {-2, 0, 3}
VARIABLES ent, frac, out
vars == <<ent, frac, out>>
Cells == (1..NE) \X (1..NN)
(* entries in canonical (element, node) order; every subset of the incidence cells up to MaxEntries, every value assignment *)
CellSeqs == {s \in UNION {[1..n -> Cells] : n \in 1..MaxEntries} : \A i \in 1..(Len(s) - 1) : (s[i][1] < s[i+1][1]) \/ (s[i][1] = s[i+1][1] /\ s[i][2] < s[i+1][2])}
Init == /\ \E cs \in CellSeqs : \E vals \in [1..Len(cs) -> Values] : ent = [i \in 1..Len(cs) |-> <<cs[i][1], cs[i][2], vals[i]>>]
        /\ frac \in {<<1, 2>>, <<3, 4>>, <<9, 10>>, <<1, 1>>}
        /\ out = CalcI(ent, frac[1], frac[2])
Next == UNCHANGED vars
Spec == Init /\ [][Next]_vars
RegionGrowingIsComponents == IsComponentLabelling(ent, frac[1], frac[2], out)
=============================================================================

SPECIFICATION Spec
CONSTANTS
  NE = 3
  NN = 3
  MaxEntries = 5
  Values = {1, 2, 4}
INVARIANT RegionGrowingIsComponents

-------------------------------- MODULE Hotspot --------------------------------
(***************************************************************************)
(* mesh/hotspot.py: HotSpot.calc.  A mesh field is a sequence of entries     *)
(* <<element, node, value>> (one per (element, node) incidence, frame order).*)
(* I: as coded -- entries at or above limit_frac * max are "remaining"; the  *)
(*    remaining entry with the largest value (first in frame order on ties)  *)
(*    seeds a hot spot which grows by remaining entries that share a node or *)
(*    an element with it; it gets the next number and is removed.            *)
(* D: labelled entries = those with value >= frac * max; labels = connected  *)
(*    components of the labelled entries under shares-a-node / shares-an-    *)
(*    element adjacency, numbered by descending peak value.                  *)
(* frac is the rational fn/fd.                                               *)
(***************************************************************************)
EXTENDS Integers, Sequences, FiniteSets, SeqX
MaxVal(ent) == SeqMax([i \in 1..Len(ent) |-> ent[i][3]])
Above(ent, fn, fd) == {i \in 1..Len(ent) : ent[i][3] * fd >= fn * MaxVal(ent)}
Adjacent(ent, i, j) == ent[i][1] = ent[j][1] \/ ent[i][2] = ent[j][2]
(* ---- I ---- *)
RECURSIVE Grow(_, _, _)
Grow(ent, remaining, hs) ==
  LET new == {j \in remaining \ hs : \E i \in hs : Adjacent(ent, i, j)}
  IN IF new = {} THEN hs ELSE Grow(ent, remaining, hs \cup new)
Seed(ent, remaining) == CHOOSE i \in remaining : (\A j \in remaining : ent[j][3] <= ent[i][3]) /\ (\A j \in remaining : (j < i) => ent[j][3] < ent[i][3])
RECURSIVE Label(_, _, _, _)
Label(ent, remaining, k, lab) ==
  IF remaining = {} THEN lab
  ELSE LET hs == Grow(ent, remaining, {Seed(ent, remaining)})
       IN Label(ent, remaining \ hs, k + 1, [i \in 1..Len(ent) |-> IF i \in hs THEN k ELSE lab[i]])
CalcI(ent, fn, fd) == Label(ent, Above(ent, fn, fd), 1, [i \in 1..Len(ent) |-> 0])
(* ---- D ---- *)
RECURSIVE Reach(_, _, _)
Reach(ent, A, S) == LET new == {j \in A \ S : \E i \in S : Adjacent(ent, i, j)} IN IF new = {} THEN S ELSE Reach(ent, A, S \cup new)
Components(ent, A) == {Reach(ent, A, {i}) : i \in A}
Peak(ent, C) == CHOOSE v \in {ent[i][3] : i \in C} : \A i \in C : ent[i][3] <= v
IsComponentLabelling(ent, fn, fd, lab) ==
  LET A == Above(ent, fn, fd)  Cs == Components(ent, A) IN
  /\ \A i \in 1..Len(ent) : (lab[i] # 0) <=> (i \in A)
  /\ \A C \in Cs : \E k \in 1..Cardinality(Cs) : \A i \in 1..Len(ent) : (lab[i] = k) <=> (i \in C)          \* one number per component, 1..#components
  /\ \A C1, C2 \in Cs : (Peak(ent, C1) > Peak(ent, C2)) => (\A i \in C1, j \in C2 : lab[i] < lab[j])        \* numbered by descending peak
=============================================================================

SPECIFICATION Spec
CONSTANTS
  NE = 2
  NN = 3
  MaxEntries = 4
  Values = {1, 2, 4}
INVARIANT RegionGrowingIsComponents

------------------------------ MODULE MC_MeshOps ------------------------------
EXTENDS MeshOps, TLC
CONSTANTS Dims, Schemes
DimsQuick == {<<1, 1, 1>>, <<2, 1, 1>>, <<2, 2, 2>>}
DimsThorough == DimsQuick \cup {<<1, 2, 1>>, <<2, 2, 1>>, <<1, 1, 2>>, <<3, 2, 2>>}
VARIABLES d, nscheme, escheme, roworder, out
vars == <<d, nscheme, escheme, roworder, out>>
Init == /\ d \in Dims /\ nscheme \in Schemes /\ escheme \in Schemes /\ roworder \in {"natural", "reversed", "interleaved"}
        /\ out = [nodes |-> {<<Id(nscheme, NodeLin(d, c), NodeCount(d)), c>> : c \in LatticeNodes(d)},
                  elems |-> {<<Id(escheme, ElemLin(d, cell), ElemCount(d)), [a \in 1..8 |-> Id(nscheme, NodeLin(d, HexNodes(cell)[a]), NodeCount(d))]>> : cell \in LatticeCells(d)},
                  boundary |-> {Id(nscheme, NodeLin(d, c), NodeCount(d)) : c \in Boundary(d)}]
Next == UNCHANGED vars
Spec == Init /\ [][Next]_vars
IdsInjective == Cardinality({x[1] : x \in out.nodes}) = NodeCount(d) /\ Cardinality({x[1] : x \in out.elems}) = ElemCount(d)
InteriorNodesHaveEightElements == \A c \in LatticeNodes(d) : (~OnBoundary(d, c)) => Cardinality(ElementsAt(d, c)) = 8
BoundaryCount == Cardinality(out.boundary) = NodeCount(d) - (IF d[1] > 1 /\ d[2] > 1 /\ d[3] > 1 THEN (d[1]-1) * (d[2]-1) * (d[3]-1) ELSE 0)
=============================================================================

"""Rebuild pylife.rainflow_ext from the CURRENT extension.pyx and install it in sys.modules,
so that kernel edits in /repo are seen by the checks (the .so in the tree is never rebuilt by editing)."""
import hashlib, importlib.util, os, subprocess, sys, sysconfig
from . import WORK, REPO, EXT_CACHE


def repo_src():
    return os.environ.get('VERIF_REPO_SRC', os.path.join(REPO, 'src'))


def ensure_ext():
    src = repo_src()
    pyx = os.path.join(src, 'pylife', 'stress', 'rainflow', 'extension.pyx')
    h = hashlib.sha256(open(pyx, 'rb').read()).hexdigest()[:16]
    d = os.path.join(EXT_CACHE, h)
    so = os.path.join(d, 'rainflow_ext' + sysconfig.get_config_var('EXT_SUFFIX'))
    if not os.path.exists(so):
        os.makedirs(d, exist_ok=True)
        c = os.path.join(d, 'rainflow_ext.c')
        tmp_pyx = os.path.join(d, 'rainflow_ext.pyx')
        with open(tmp_pyx, 'wb') as f:
            f.write(open(pyx, 'rb').read())
        subprocess.run([sys.executable, '-m', 'cython', '-3', tmp_pyx, '-o', c], check=True, capture_output=True)
        import numpy
        inc = ['-I' + sysconfig.get_paths()['include'], '-I' + numpy.get_include()]
        tmp_so = so + '.%d.tmp' % os.getpid()
        subprocess.run(['gcc', '-shared', '-fPIC', '-O2', '-w', *inc, c, '-o', tmp_so], check=True, capture_output=True)
        os.replace(tmp_so, so)
    return so, h


def install():
    """Make `import pylife` use repo_src() and the freshly built kernels. Call before importing pylife."""
    src = repo_src()
    if src not in sys.path[:1]:
        sys.path.insert(0, src)
    for k in list(sys.modules):
        if k == 'pylife' or k.startswith('pylife.'):
            raise RuntimeError('pylife imported before vh.build.install()')
    so, h = ensure_ext()
    spec = importlib.util.spec_from_file_location('pylife.rainflow_ext', so)
    mod = importlib.util.module_from_spec(spec)
    spec.loader.exec_module(mod)
    sys.modules['pylife.rainflow_ext'] = mod
    import pylife
    assert os.path.realpath(os.path.dirname(pylife.__file__)) == os.path.realpath(os.path.join(src, 'pylife')), pylife.__file__
    return h

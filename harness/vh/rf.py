"""Driving the real rainflow detectors and projecting their observable state
(the same projection is used for replay of TLC states and for recorded traces)."""
import warnings
import numpy as np


def detectors():
    import pylife.stress.rainflow as RF
    return {'3': RF.ThreePointDetector, '4': RF.FourPointDetector, 'F': RF.FKMDetector}


def new(kind):
    import pylife.stress.rainflow as RF
    return detectors()[kind](recorder=RF.FullRecorder())


def _ints(a):
    out = []
    for x in a:
        xf = float(x)
        out.append(int(xf) if xf == int(xf) else xf)
    return tuple(out)


def project(det, kind):
    """Observable state named by C01/C02: cycles (values, indices), residuals, residual_index, chunks."""
    rec = det.recorder
    vf, vt = _ints(rec.values_from), _ints(rec.values_to)
    if kind == 'F':
        cyc = tuple(zip(vf, vt))
    else:
        cyc = tuple(zip(vf, vt, (int(i) for i in rec.index_from), (int(i) for i in rec.index_to)))
    return {'cyc': cyc, 'rv': _ints(det.residuals), 'rix': tuple(int(i) for i in det.residual_index),
            'chunks': tuple(int(c) for c in rec.chunks)}


def internal(det, kind):
    d = {'tail': _ints(getattr(det, '_sample_tail', [])), 'head': int(getattr(det, '_head_index', -1))}
    if kind == 'F':
        d['ir'] = int(getattr(det, '_ir', -1))
        m = float(getattr(det, '_max_turn', -1))
        d['mx'] = int(m) if m == int(m) else m
    else:
        d['ri'] = tuple(int(i) for i in getattr(det, '_residual_index', []))
    return d


def run_chunked(kind, signal, cuts, as_float=True, per_step=None):
    det = new(kind)
    pos = 0
    sig = np.asarray(signal, dtype=np.float64) if as_float else signal
    # every chunk is handed over in ONE re-used read buffer that is overwritten after the call (a streaming reader): a detector that keeps a
    # reference to the caller's memory instead of a copy sees garbage in its cached tail
    buf = np.empty(max(list(cuts) + [1]), dtype=np.float64) if as_float else None
    for c in cuts:
        if buf is None:
            det.process(sig[pos:pos + c])
        else:
            buf[:c] = sig[pos:pos + c]
            det.process(buf[:c])
            buf[:] = 7.7e77
        pos += c
        if per_step is not None:
            per_step(det)
    return det


def model_obs34(d):
    """Projection of a dumped model record d3/d4 (see Rainflow.tla Obs34)."""
    return {'cyc': tuple(tuple(c) for c in d['cyc']), 'rv': tuple(d['rv']),
            'rix': tuple(d['ri']) + (d['head'] - 1,), 'chunks': tuple(d['chunks'])}


def model_obsF(f, cuts):
    return {'cyc': tuple(tuple(c) for c in f['cyc']), 'rv': tuple(f['rv']), 'rix': (0, f['head'] - 1), 'chunks': ()}


def chunk_map_ok(det, signal, cuts):
    """Every reported global index maps to the chunk / local position that holds that sample (C01, 2nd sentence)."""
    rec = det.recorder
    idx = np.concatenate([np.asarray(rec.index_from, dtype=np.int64), np.asarray(rec.index_to, dtype=np.int64),
                          np.asarray(det.residual_index, dtype=np.int64)])
    if len(idx) == 0:
        return True, None
    num, loc = rec.chunk_local_index(idx)
    starts = np.concatenate([[0], np.cumsum(cuts)])
    for g, c, l in zip(idx, num, loc):
        c, l, g = int(c), int(l), int(g)
        if not (0 <= c < len(cuts) and 0 <= l < cuts[c] and starts[c] + l == g):
            return False, {'global': g, 'chunk': c, 'local': l}
    return True, None

"""Driving the real FKMNonlinearDetector with exact integer laws and projecting the recorder."""
import numpy as np
import pandas as pd


class ExactLaw:
    """Odd integer-valued notch 'law' (same functions as HCMNL.tla, selected by law id)."""
    ramberg_osgood_relation = None

    def __init__(self, law_id):
        self.id = law_id
        self.calls = 0

    def _wrap(self, like, vals):
        self.calls += 1
        if isinstance(like, pd.Series):
            return pd.Series(np.asarray(vals, dtype=np.float64), index=like.index)
        return pd.Series(np.atleast_1d(np.asarray(vals, dtype=np.float64)))

    def stress(self, load, *a, **k):
        L = np.asarray(load, dtype=np.float64)
        return self._wrap(load, {'lin': L, 'cubic': 2 * L, 'asym': 2 * L}[self.id])

    def strain(self, stress, load, *a, **k):
        L = np.asarray(load, dtype=np.float64)
        S = np.asarray(stress, dtype=np.float64)
        return self._wrap(load, {'lin': L, 'cubic': L + L ** 3, 'asym': S + L ** 3}[self.id])

    def stress_secondary_branch(self, delta_load, *a, **k):
        d = np.asarray(delta_load, dtype=np.float64)
        return self._wrap(delta_load, {'lin': d, 'cubic': 2 * d, 'asym': 3 * d}[self.id])

    def strain_secondary_branch(self, delta_stress, delta_load, *a, **k):
        d = np.asarray(delta_load, dtype=np.float64)
        dS = np.asarray(delta_stress, dtype=np.float64)
        return self._wrap(delta_load, {'lin': d, 'cubic': d + d ** 3 / 4, 'asym': dS + d ** 3}[self.id])


def new_detector(law):
    from pylife.stress.rainflow.fkm_nonlinear import FKMNonlinearDetector
    from pylife.stress.rainflow.recorders import FKMNonlinearRecorder
    return FKMNonlinearDetector(recorder=FKMNonlinearRecorder(), notch_approximation_law=law)


def _num(x):
    x = float(x)
    if x != x:
        return 'nan'
    if x in (float('inf'), float('-inf')):
        return 'inf' if x > 0 else '-inf'
    return int(x) if x == int(x) else x


COLS = ['loads_min', 'loads_max', 'S_min', 'S_max', 'epsilon_min', 'epsilon_max', 'epsilon_min_LF', 'epsilon_max_LF']
DERIVED = ['S_a', 'S_m', 'epsilon_a', 'epsilon_m', 'R']


def project(det, npoints=1):
    """Recorder content as list of per-hysteresis dicts (per point lists when npoints > 1) + strain lists."""
    c = det.recorder.collective
    rows = []
    n = len(c) // npoints if npoints else 0
    for h in range(n):
        part = c.iloc[h * npoints:(h + 1) * npoints]
        r = {}
        for col in COLS + DERIVED:
            vals = [_num(v) for v in part[col].to_numpy()]
            r[col] = vals[0] if npoints == 1 else vals
        r['closed'] = [bool(v) for v in np.asarray(part['is_closed_hysteresis'])]
        r['zero'] = [bool(v) for v in np.asarray(part['is_zero_mean_stress_and_strain'])]
        r['run'] = [int(v) for v in part['run_index'].to_numpy()]
        if npoints == 1:
            r['closed'], r['zero'], r['run'] = r['closed'][0], r['zero'][0], r['run'][0]
        rows.append(r)
    return {'rows': rows, 'strains': [_num(v) for v in det.strain_values],
            'strains_first': [_num(v) for v in det.strain_values_first_run],
            'strains_second': [_num(v) for v in det.strain_values_second_run]}


def two_pass(seq, law_id='lin'):
    det = new_detector(ExactLaw(law_id))
    arr = np.asarray(seq, dtype=np.float64)
    buf = arr.copy()                 # the caller's array is overwritten between and after the two calls: the detector must not keep a reference to it
    det.process_hcm_first(buf)
    buf[:] = 7.7e77
    buf = arr.copy()
    det.process_hcm_second(buf)
    buf[:] = 7.7e77
    return det


def multi_samples(seq, scales, node_ids=None, labels=None):
    """Series with MultiIndex (load_step, node_id): point p carries scales[p] * seq."""
    node_ids = node_ids or list(range(len(scales)))
    idx = pd.MultiIndex.from_product([labels if labels is not None else range(len(seq)), node_ids], names=['load_step', 'node_id'])
    vals = [float(c) * float(v) for v in seq for c in scales]
    return pd.Series(vals, index=idx)


def history_multi(seq, scales, law_id, cuts, flushes, node_ids=None, labels=None):
    """Raw process(chunk, flush) history on a batch of proportional points."""
    det = new_detector(ExactLaw(law_id))
    smp = multi_samples(seq, scales, node_ids, labels)
    npts = len(scales)
    pos = 0
    for c, fl in zip(cuts, flushes):
        det.process(smp.iloc[pos * npts:(pos + c) * npts], flush=fl)
        pos += c
    return det


def history_single(seq, law_id, cuts, flushes):
    det = new_detector(ExactLaw(law_id))
    arr = np.asarray(seq, dtype=np.float64)
    pos = 0
    buf = np.empty(max(list(cuts) + [1]), dtype=np.float64)       # one re-used read buffer, overwritten after every call (see rf.run_chunked)
    for c, fl in zip(cuts, flushes):
        buf[:c] = arr[pos:pos + c]
        det.process(buf[:c], flush=fl)
        buf[:] = 7.7e77
        pos += c
    return det


def two_pass_multi(seq, scales, law_id='lin', node_ids=None, labels=None):
    det = new_detector(ExactLaw(law_id))
    smp = multi_samples(seq, scales, node_ids, labels)
    det.process_hcm_first(smp)
    det.process_hcm_second(smp)
    return det


def model_rows(out):
    """Expected projection from a dumped HCMNL state record."""
    rows = []
    for w in out['rows']:
        r = {'loads_min': w['lmin'], 'loads_max': w['lmax'], 'S_min': w['smin'], 'S_max': w['smax'],
             'epsilon_min': w['emin'], 'epsilon_max': w['emax'], 'epsilon_min_LF': w['eminLF'], 'epsilon_max_LF': w['emaxLF'],
             'closed': w['closed'], 'zero': w['zero'], 'run': w['run']}
        sa2, sm2 = w['smax'] - w['smin'], w['smax'] + w['smin']
        ea2, em2 = w['emax'] - w['emin'], w['emax'] + w['emin']
        r['S_a'] = _num(sa2 / 2)
        r['epsilon_a'] = _num(ea2 / 2)
        r['S_m'] = 0 if w['zero'] else _num(sm2 / 2)
        r['epsilon_m'] = 0 if w['zero'] else _num(em2 / 2)
        if w['zero']:
            r['R'] = -1
        else:
            with np.errstate(all='ignore'):
                r['R'] = _num(np.float64(w['smin']) / np.float64(w['smax']))
        rows.append(r)
    st = list(out['strains'])
    return {'rows': rows, 'strains': st, 'strains_first': st[:out['nfirst']], 'strains_second': st[out['nfirst']:]}

"""Fork-based parallel map that keeps the already imported pylife (from the current tree)."""
import multiprocessing as mp, os

NPROC = int(os.environ.get('VERIF_NPROC', '16'))


def pmap(fn, items, nproc=None, chunksize=None):
    items = list(items)
    nproc = nproc or NPROC
    if len(items) < 4 or nproc <= 1:
        return [fn(x) for x in items]
    ctx = mp.get_context('fork')
    cs = chunksize or max(1, len(items) // (nproc * 8))
    with ctx.Pool(nproc) as pool:
        return pool.map(fn, items, cs)


def split_dump(path, nparts):
    """Split a TLC dump file into <= nparts lists of raw state blocks (strings)."""
    import re
    txt = open(path).read()
    blocks = [b for b in re.split(r'\nState \d+:\n', '\n' + txt) if b.strip()]
    n = max(1, (len(blocks) + nparts - 1) // nparts)
    return [blocks[i:i + n] for i in range(0, len(blocks), n)]

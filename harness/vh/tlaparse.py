"""Parser for TLA+ values as printed by TLC (-dump, PrintT, -simulate files).

ints, strings, TRUE/FALSE, model values/identifiers, tuples <<..>>, sets {..},
records [a |-> v, ..], functions (a :> b @@ c :> d), intervals a..b.
Tuples -> tuple, sets -> frozenset (or list if unhashable), records -> dict,
functions -> dict.
"""
import re

_tok = re.compile(r'\s*(<<|>>|\|->|:>|@@|\.\.|[\[\]{}(),]|-?\d+|"(?:[^"\\]|\\.)*"|[A-Za-z_][A-Za-z0-9_!]*)')


def tokenize(s):
    pos = 0
    out = []
    n = len(s)
    while pos < n:
        m = _tok.match(s, pos)
        if not m:
            if s[pos:].strip() == '':
                break
            raise ValueError('cannot tokenize at %r' % s[pos:pos + 40])
        out.append(m.group(1))
        pos = m.end()
    return out


class _P:
    def __init__(self, toks):
        self.t = toks
        self.i = 0

    def peek(self):
        return self.t[self.i] if self.i < len(self.t) else None

    def next(self):
        v = self.t[self.i]
        self.i += 1
        return v

    def expect(self, x):
        v = self.next()
        if v != x:
            raise ValueError('expected %r got %r at %d' % (x, v, self.i))

    def value(self):
        t = self.next()
        if t == '<<':
            items = []
            if self.peek() == '>>':
                self.next()
                return tuple()
            while True:
                items.append(self.value())
                s = self.next()
                if s == '>>':
                    return tuple(items)
                if s != ',':
                    raise ValueError('bad tuple sep %r' % s)
        if t == '{':
            items = []
            if self.peek() == '}':
                self.next()
                return frozenset()
            while True:
                items.append(self.value())
                s = self.next()
                if s == '}':
                    break
                if s != ',':
                    raise ValueError('bad set sep %r' % s)
            try:
                return frozenset(items)
            except TypeError:
                return items
        if t == '[':
            d = {}
            if self.peek() == ']':
                self.next()
                return d
            while True:
                k = self.next()
                self.expect('|->')
                d[k] = self.value()
                s = self.next()
                if s == ']':
                    return d
                if s != ',':
                    raise ValueError('bad record sep %r' % s)
        if t == '(':
            d = {}
            while True:
                k = self.value()
                self.expect(':>')
                d[_hashable(k)] = self.value()
                s = self.next()
                if s == ')':
                    return d
                if s != '@@':
                    raise ValueError('bad fn sep %r' % s)
        if t == 'TRUE':
            return True
        if t == 'FALSE':
            return False
        if t[0] == '"':
            return bytes(t[1:-1], 'utf-8').decode('unicode_escape')
        if re.fullmatch(r'-?\d+', t):
            v = int(t)
            if self.peek() == '..':
                self.next()
                hi = int(self.next())
                return frozenset(range(v, hi + 1))
            return v
        return t  # model value / identifier


def _hashable(k):
    if isinstance(k, dict):
        return tuple(sorted(k.items()))
    if isinstance(k, list):
        return tuple(k)
    return k


def parse_value(s):
    p = _P(tokenize(s))
    v = p.value()
    if p.i != len(p.t):
        raise ValueError('trailing tokens: %r' % p.t[p.i:p.i + 5])
    return v


def parse_dump(path):
    """Yield dict var->value per state of a `tlc -dump` file."""
    txt = open(path).read()
    blocks = re.split(r'\nState \d+:\n', '\n' + txt)
    for b in blocks:
        b = b.strip()
        if not b:
            continue
        yield parse_state(b)


def parse_state(b):
    b = ' '.join(line.strip() for line in b.splitlines())
    if b.startswith('/\\ '):
        b = b[3:]
    parts = re.split(r' /\\ (?=[A-Za-z_][A-Za-z0-9_]* = )', b)
    st = {}
    for part in parts:
        name, _, val = part.partition(' = ')
        st[name.strip()] = parse_value(val)
    return st


def to_tla(v):
    """Python -> TLA+ literal (ints, bools, str, tuple/list -> sequence, dict -> record, frozenset -> set)."""
    if isinstance(v, bool):
        return 'TRUE' if v else 'FALSE'
    if isinstance(v, int):
        return str(v)
    if isinstance(v, str):
        return '"%s"' % v
    if isinstance(v, (tuple, list)):
        return '<<' + ', '.join(to_tla(x) for x in v) + '>>'
    if isinstance(v, dict):
        return '[' + ', '.join('%s |-> %s' % (k, to_tla(x)) for k, x in v.items()) + ']'
    if isinstance(v, (set, frozenset)):
        return '{' + ', '.join(to_tla(x) for x in sorted(v, key=repr)) + '}'
    raise TypeError(type(v))

"""bin/vcheck selftest — demonstrates that the trace specifications are bound to what they read:
an accepted recorded trace must be rejected, with the attacked clause, after ONE field is altered or ONE event is removed."""
import copy, os, sys
from . import SPEC, tlc, build


def _expect(name, tla, cfg, cases):
    """cases: list of (label, trace, expected clause).  Returns number of failures."""
    out = tlc.validate_traces(tla, cfg, [c[1] for c in cases], 'selftest_' + name, nsplit=2)
    bad = 0
    for (label, _, want), v in zip(cases, out['verdicts']):
        got = v[1] if v else 'NO-VERDICT'
        ok = (got == want) if not isinstance(want, (set, tuple)) else (got in want)
        print('%-18s %-42s expected %-28s got %-28s %s' % (name, label, want, got, 'ok' if ok else 'FAIL'))
        bad += 0 if ok else 1
    for e in out['errors']:
        print(name, 'TLC error:', e[:300])
        bad += 1
    return bad


def main():
    build.install()
    from .drivers import c01, c03, c04
    bad = 0
    # ---- Trace_Rainflow
    sig = [0, 5, 1, 4, 2, 6, 0, 3, 3, 1, 7, 2]
    tr, _ = c01.record_trace('4', sig, [3, 1, 4, 4])
    def mod(f):
        t = copy.deepcopy(tr); f(t); return t
    cases = [('unmodified', tr, 'ok'),
             ('one cycle value altered', mod(lambda t: t['events'][-1]['cyc'][0].__setitem__(0, 99)), 'cycles'),
             ('one residual altered', mod(lambda t: t['events'][1]['rv'].__setitem__(0, 42)), 'residuals'),
             ('one residual index altered', mod(lambda t: t['events'][2]['rix'].__setitem__(-1, 0)), 'residual_index'),
             ('chunk bookkeeping altered', mod(lambda t: t['events'][2]['chunks'].__setitem__(0, 2)), 'chunks'),
             ('one process() event removed', mod(lambda t: t['events'].pop(1)), ('cycles', 'residuals', 'residual_index', 'chunks'))]
    bad += _expect('Trace_Rainflow', c01.TRACE_TLA, c01.TRACE_CFG, cases)
    # ---- Trace_HCM
    tr2, _ = c04.record_two_pass([3, -1, 2, -3, 1, -2, 2], 'lin')
    def mod2(f):
        t = copy.deepcopy(tr2); f(t); return t
    cases = [('unmodified', tr2, 'ok'),
             ('run index of a row altered', mod2(lambda t: t['events'][1]['rows'][-1].__setitem__('run', 1)), 'loads_flags_run'),
             ('one stress value altered', mod2(lambda t: t['events'][1]['rows'][0].__setitem__('smax', 77)), 'stress_strain_columns'),
             ('one visited strain altered', mod2(lambda t: t['events'][0]['strains'].__setitem__(0, 55)), 'strain_values'),
             ('a recorded row removed', mod2(lambda t: t['events'][1]['rows'].pop()), 'row_count'),
             ('first call removed', mod2(lambda t: t['events'].pop(0)), ('row_count', 'loads_flags_run', 'stress_strain_columns', 'strain_values', 'strain_values_first_run'))]
    bad += _expect('Trace_HCM', c04.TRACE_TLA, os.path.join(SPEC, 'hcm', 'Trace_HCM_lin.cfg'), cases)
    # ---- Trace_Symmetry
    import random
    n, viol, drift, items = c03.check_signal([0, 3, 1, 2, -1, 4], random.Random(1), False, None, want_traces=True)
    e = items[0][0]
    def mod3(f):
        t = copy.deepcopy(e); f(t); return t
    cases = [('unmodified', e, 'ok'),
             ('transformed run altered', mod3(lambda t: t['trans']['rv'].__setitem__(0, 123)), 'relation'),
             ('base run altered', mod3(lambda t: t['base']['rv'].__setitem__(0, 123)), 'base')]
    bad += _expect('Trace_Symmetry', c03.TRACE_TLA, c03.TRACE_CFG, cases)
    # ---- Trace_Assessment (synthetic observations)
    o = {'ram': 15000000, 'raj': 16000000, 'ram_inf': False, 'raj_inf': False, 'n10': 0, 'n50': 0, 'n90': 0}
    def tra(rel, n):
        return {'start': dict(o), 'events': [{'action': 'X', 'arg': 0, 'relation': rel, 'obs': n}]}
    cases = [('same / unchanged', tra('same', dict(o)), 'ok'),
             ('same / P_RAM moved by 3 units', tra('same', {**o, 'ram': o['ram'] + 3}), 'P_RAM_lifetime_changed'),
             ('notlarger / P_RAJ larger', tra('notlarger', {**o, 'raj': o['raj'] + 9}), 'P_RAJ_lifetime_increased'),
             ('notlarger / became infinite', tra('notlarger', {**o, 'ram': 2000000000}), 'P_RAM_lifetime_increased'),
             ('N50 above N90', {'start': {**o, 'n10': 10, 'n50': 30, 'n90': 20}, 'events': []}, 'N50_not_between_N10_and_N90')]
    bad += _expect('Trace_Assessment', os.path.join(SPEC, 'assessment', 'Trace_Assessment.tla'), os.path.join(SPEC, 'assessment', 'Trace_Assessment.cfg'), cases)
    # ---- Trace_Analysis (synthetic)
    U = 1048576
    est = {'SD': 8 * U, 'ND': 20 * U, 'k_1': 2 * U, 'TN': U, 'TS': U // 4}
    def trb(action, arg, n, gain=0):
        return {'tau': 2, 'tauND': 2, 'check_scatter': True, 'exact_slope': 0, 'lnL_gain_micro': 0, 'start': dict(est), 'events': [{'action': action, 'arg': arg, 'lnL_gain_micro': gain, 'obs': n}]}
    cases = [('ScaleLoads(2) shifts SD by one unit', trb('ScaleLoads', 1, {**est, 'SD': 9 * U}), 'ok'),
             ('ScaleLoads(2) but SD unchanged', trb('ScaleLoads', 1, dict(est)), 'SD'),
             ('ScaleCycles(4) but slope changed', trb('ScaleCycles', 2, {**est, 'ND': 22 * U, 'k_1': 2 * U + 5}), 'k_1'),
             ('Permute changes TS', trb('Permute', 0, {**est, 'TS': U // 4 + 9}), 'TS'),
             ('MLE less likely than its start', trb('Permute', 0, dict(est), gain=-50), 'likelihood_below_start')]
    bad += _expect('Trace_Analysis', os.path.join(SPEC, 'woehleranalysis', 'Trace_Analysis.tla'), os.path.join(SPEC, 'woehleranalysis', 'Trace_Analysis.cfg'), cases)
    # ---- Trace_Notch (a recorded walk of the real extended Neuber law)
    from .drivers import c06
    tw, _ = c06._walk(('EN', c06.MATERIALS[0], 2.0, c06.TOLS[1], [0.2, 0.5, 0.9]))
    tw = {k: tw[k] for k in ('law', 'lgKp', 'tau', 'bresP', 'bresS', 'steps')}
    def mod4(f):
        t = copy.deepcopy(tw); f(t); return t
    U = 1048576
    cases = [('unmodified', tw, 'ok'),
             ('stress moved above the load', mod4(lambda t: t['steps'][1].__setitem__('lgS', t['steps'][1]['lgL'] + 5000)), 'stress_above_load'),
             ('stress below load / K_p', mod4(lambda t: t['steps'][0].__setitem__('lgS', t['steps'][0]['lgL'] - t['lgKp'] - 5000)), 'stress_below_load_over_Kp'),
             ('stress for -L differs', mod4(lambda t: t['steps'][0].__setitem__('lgSneg', t['steps'][0]['lgS'] + 40)), 'not_odd_in_the_load'),
             ('stress range not doubled', mod4(lambda t: t['steps'][2].__setitem__('lgD', t['steps'][2]['lgS'] + U - 30)), 'stress_range_is_not_the_Masing_doubled_primary_stress'),
             ('residual 3x the tolerance', mod4(lambda t: t['steps'][1].__setitem__('resP', 3000)), 'primary_stress_is_not_a_root_of_the_defining_equation'),
             ('strain not on the RO curve', mod4(lambda t: t['steps'][1].__setitem__('lgEps', t['steps'][1]['lgEpsRO'] + 9)), 'strain_is_not_the_Ramberg_Osgood_strain_of_the_stress'),
             ('backward function off', mod4(lambda t: t['steps'][2].__setitem__('lgLb', t['steps'][2]['lgL'] + 40)), 'load_of_stress_is_not_the_load'),
             ('Series input answers differently', mod4(lambda t: t['steps'][0]['forms'].__setitem__(-1, t['steps'][0]['lgS'] + 40)), 'scalar_array_and_Series_inputs_differ'),
             ('an element of the long vector is no root', mod4(lambda t: t.__setitem__('bresS', 2500)), 'long_vector_stress_range_is_not_a_root'),
             ('long range vector answers differently', mod4(lambda t: t['steps'][2]['formsD'].__setitem__(0, t['steps'][2]['lgD'] - 40)), 'secondary_branch_container_forms_differ'),
             ('second step repeats the first stress', mod4(lambda t: t['steps'][1].update({k: t['steps'][0][k] for k in ('lgS', 'lgSneg', 'lgD', 'forms', 'formsD', 'lgEps', 'lgEpsRO', 'lgDEps', 'lgDEpsRO')} | {'lgLb': 0, 'lgLbs': 0})),
              ('stress_not_strictly_increasing_in_the_load', 'stress_below_load_over_Kp'))]
    bad += _expect('Trace_Notch', c06.TRACE_TLA, c06.TRACE_CFG, cases)
    print('selftest:', 'all trace specifications reject what they must' if bad == 0 else '%d FAILURES' % bad)
    return 0 if bad == 0 else 1

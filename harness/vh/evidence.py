"""Evidence writer (validated against /root/.vp/EVIDENCE.schema.json when available) and the check context."""
import json, os, sys, time
from . import ROOT

SCHEMA = '/root/.vp/EVIDENCE.schema.json'


class Check:
    """Accumulates what one run of one property check covered, its violations and known findings."""

    def __init__(self, pid, tier, seed, level='model_checking'):
        self.pid, self.tier, self.seed, self.level = pid, tier, seed, level
        self.t0 = time.time()
        self.cov = {'states': 0, 'transitions': 0, 'traces_validated_against_impl': 0, 'samples': [],
                    'evaluations': 0, 'distinct_nontrivial': 0, 'rule': '', 'exhaustive': False,
                    'tlc_runs': [], 'parts': {}}
        self.assumptions = []
        self.violations = []     # dicts
        self.known = []          # messages
        self.drift = []
        self.machinery = []      # machinery failures (exit 2)
        self._nontrivial = set()

    # ---- bookkeeping
    def tlc(self, name, res, note=''):
        self.cov['states'] += res.distinct
        self.cov['transitions'] += res.generated
        self.cov['tlc_runs'].append({'model': name, 'distinct_states': res.distinct, 'states_generated': res.generated,
                                     'depth': res.depth, 'wall_s': round(res.wall, 1), 'result': 'ok' if res.ok else (res.violated or 'error'),
                                     'note': note, **({'coverage': {k: v[0] for k, v in res.coverage.items()}} if res.coverage else {})})
        if res.error:
            self.machinery.append('%s: %s' % (name, res.error[:1500]))

    def part(self, name, **kw):
        d = self.cov['parts'].setdefault(name, {})
        for k, v in kw.items():
            if isinstance(v, (int, float)) and not isinstance(v, bool) and isinstance(d.get(k), (int, float)):
                d[k] += v
            else:
                d[k] = v

    def evals(self, n=1):
        self.cov['evaluations'] += n

    def nontrivial(self, key):
        self._nontrivial.add(key)

    def sample(self, s, cap=6):
        if len(self.cov['samples']) < cap:
            self.cov['samples'].append(s)

    def violation(self, what, case, expected=None, observed=None, part=''):
        v = {'property': self.pid, 'part': part, 'what': what, 'case': case, 'expected': expected, 'observed': observed}
        self.violations.append(v)
        return v

    # ---- finish
    def finish(self):
        evdir = os.environ.get('VERIF_EVIDENCE_DIR', os.path.join(ROOT, 'evidence'))     # tools/mutest.sh points this to a scratch directory
        rdir = os.path.join(evdir, 'replay')
        os.makedirs(rdir, exist_ok=True)
        for f in os.listdir(rdir):
            if f.startswith(self.pid + '-'):
                os.remove(os.path.join(rdir, f))
        lines = []
        for m in self.known:
            lines.append('KNOWN-FINDING: property=%s %s' % (self.pid, m))
        for m in self.drift[:10]:
            lines.append('MODEL-DRIFT property=%s %s' % (self.pid, m))
        for i, v in enumerate(self.violations[:20]):
            path = os.path.join(rdir, '%s-%d.json' % (self.pid, i))
            with open(path, 'w') as f:
                json.dump(v, f, indent=1, default=_js)
            lines.append('VIOLATION property=%s replay=%s' % (self.pid, path))
            lines.append('  what: %s | case: %s' % (v['what'], json.dumps(v['case'], default=_js)[:400]))
        self.cov['distinct_nontrivial'] = len(self._nontrivial)
        ev = {'property_id': self.pid, 'tier': self.tier, 'seed': int(self.seed), 'level': self.level,
              'coverage': self.cov, 'assumptions': self.assumptions, 'wall_s': round(time.time() - self.t0, 2),
              'violations': len(self.violations),
              'known_findings_reproduced': self.known, 'model_drift': self.drift[:20], 'machinery_failures': self.machinery}
        os.makedirs(evdir, exist_ok=True)
        path = os.path.join(evdir, self.pid + '.json')
        with open(path, 'w') as f:
            json.dump(ev, f, indent=1, default=_js)
        try:
            import jsonschema
            jsonschema.validate(json.load(open(path)), json.load(open(SCHEMA)))
        except ImportError:
            pass
        except FileNotFoundError:
            pass
        except Exception as ex:       # an evidence file that does not validate is a machinery failure, reported with the others below
            self.machinery.append('evidence file does not validate: %s' % str(ex).splitlines()[0])
        for l in lines:
            print(l)
        print('%s tier=%s seed=%s states=%d replayed/validated=%d evaluations=%d nontrivial=%d violations=%d known=%d wall=%.1fs' % (
            self.pid, self.tier, self.seed, self.cov['states'], self.cov['traces_validated_against_impl'],
            self.cov['evaluations'], len(self._nontrivial), len(self.violations), len(self.known), time.time() - self.t0))
        if self.violations:
            return 1
        if self.machinery:
            for m in self.machinery:
                print('MACHINERY-FAILURE property=%s %s' % (self.pid, m), file=sys.stderr)
            return 2
        return 0


def _js(o):
    import numpy as np
    if isinstance(o, (np.integer,)):
        return int(o)
    if isinstance(o, (np.floating,)):
        return float(o)
    if isinstance(o, np.ndarray):
        return o.tolist()
    if isinstance(o, (set, frozenset)):
        return sorted(o, key=repr)
    if isinstance(o, tuple):
        return list(o)
    return repr(o)

"""bin/vcheck ext — specifications of pyLife behaviour OUTSIDE the twenty listed properties.
They are checked the same way (TLC on the model, every state replayed into the code) but nothing here is registered in MANIFEST.json:
a deviation of the code is printed as an OBSERVATION (see DESIGN.md, observations) and the exit status is 0 unless the machinery fails."""
import os, sys, json
import numpy as np
from . import SPEC, tlc, build
from .tlaparse import parse_dump


def timesignal_generator():
    """Generator.tla: query/reset histories; delivered samples = the fixed signal at consecutive indices since the last reset."""
    from pylife.stress.timesignal import TimeSignalGenerator
    res = tlc.run(os.path.join(SPEC, 'timesignal', 'Generator.tla'), os.path.join(SPEC, 'timesignal', 'MC_Generator.cfg'), dump=True, timeout=600)
    if res.violated or res.error:
        return ['MACHINERY Generator.tla: %s %s' % (res.violated, (res.error or '')[:200])], 0, 0
    np.random.seed(7)
    ss = {'number': 3, 'amplitude_median': 1.0, 'amplitude_std_dev': 0.2, 'frequency_median': 3.0, 'frequency_std_dev': 0.3, 'offset_median': 0.5, 'offset_std_dev': 0.1}
    sr, unit = 10.0, 10              # one model sample = 10 real samples at 10 Hz, so that a few chunks cross t = omega
    gen = TimeSignalGenerator(sr, ss, None, None)

    def direct(i0, n):
        t = (i0 + np.arange(n)) / sr
        return sum(a * np.sin(w * t + p) + c for a, w, p, c in gen.sine_set)
    obs, n, bad = [], 0, 0
    first = None
    for st in parse_dump(res.dump_path):
        hist = [tuple(h) for h in st['hist']]
        if not hist:
            continue
        n += 1
        gen.reset()
        pos = 0
        for k, (what, arg) in enumerate(hist):
            if what == 'reset':
                gen.reset()
                pos = 0
                continue
            got = gen.query(arg * unit)
            want = direct(pos, arg * unit)
            pos += arg * unit
            if not np.allclose(got, want, rtol=0, atol=1e-9):
                bad += 1
                if first is None:
                    first = {'history': [list(h) for h in hist], 'failing_call': k + 1, 'samples_already_delivered': pos - arg * unit,
                             'max_abs_deviation': float(np.abs(got - want).max()), 'frequencies': [float(s[1]) for s in gen.sine_set]}
                break
    os.remove(res.dump_path)
    if bad:
        obs.append('OBSERVATION timesignal.TimeSignalGenerator: %d of %d query/reset histories deliver samples that do not attach to the previously delivered ones '
                   '(query() removes floor(t/omega)*omega from the time, i.e. multiples of the FREQUENCY instead of the period 2 pi/omega; visible as soon as t >= omega). first: %s'
                   % (bad, n, json.dumps(first)))
    return obs, n, res.distinct


def held_damage_calculator():
    """HeldCalls.tla with a kept DamageCalculatorPRAM: lifetime / N_max_bearable(P_A) in any order; each answer as from a fresh object."""
    import warnings, io, contextlib
    import pandas as pd
    from . import assess
    from pylife.strength.fkm_nonlinear.assessment_nonlinear_standard import perform_fkm_nonlinear_assessment
    res = tlc.run(os.path.join(SPEC, 'meanstress', 'MC_HeldCalls.tla'), os.path.join(SPEC, 'meanstress', 'MC_HeldCalls_calc.cfg'), dump=True, timeout=600)
    if res.violated or res.error:
        return ['MACHINERY HeldCalls (calc): %s %s' % (res.violated, (res.error or '')[:200])], 0, 0
    SEQ = {'base1': [100, -200, 100, -250, 200, 0, 200, -200], 'base3': [120, -120, 200, -200, 240, -240, 120, -120, 280, -280, 80, -80, 240, -240, 320, -320, 320, -320]}

    def fresh(o):
        p = dict(assess.BASE)
        p['R_m'] = 400.0
        with warnings.catch_warnings(), contextlib.redirect_stdout(io.StringIO()):
            warnings.simplefilter('ignore')
            r = perform_fkm_nonlinear_assessment(pd.Series(p), pd.Series([float(v) for v in SEQ[o]]), calculate_P_RAM=True, calculate_P_RAJ=False)
        dc = r['P_RAM_damage_calculator']
        return dc, dc.get_lifetime_functions(r['assessment_parameters'])[0]

    def ask(dc, f, what):
        with warnings.catch_warnings():
            warnings.simplefilter('ignore')
            return float(np.asarray(dc.lifetime_n_cycles)) if what == 'lifetime' else float(np.asarray(f({'N50': 0.5, 'N1e5': 1e-5}[what])))
    ref = {}
    for o in SEQ:
        for what in ('lifetime', 'N50', 'N1e5'):
            dc, f = fresh(o)
            ref[(o, what)] = ask(dc, f, what)
    n, bad, first = 0, 0, None
    for st in parse_dump(res.dump_path):
        hist = [tuple(h) for h in st['hist']]
        if len(hist) < 2:
            continue
        n += 1
        dc, f = fresh(st['obj'])
        for k, (_, what) in enumerate(hist):
            got = ask(dc, f, what)
            if abs(got - ref[(st['obj'], what)]) > 1e-9 * abs(ref[(st['obj'], what)]):
                bad += 1
                if first is None:
                    first = {'calls': [h[1] for h in hist], 'failing_call': k + 1, 'answer': got, 'fresh_object_answers': ref[(st['obj'], what)]}
                break
    os.remove(res.dump_path)
    obs = []
    if bad:
        obs.append('OBSERVATION DamageCalculatorPRAM: %d of %d call histories on a kept calculator answer differently from a fresh one: N_max_bearable(P_A) overwrites the '
                   'N and D columns of the collective, so lifetime_n_cycles afterwards is the lifetime for the LAST requested failure probability. first: %s' % (bad, n, json.dumps(first)))
    return obs, n, res.distinct


def _fd_replay(blocks):
    """Replays FatigueData.tla histories on the real accessor; returns (n histories, calls, list of deviations)."""
    import warnings
    from fractions import Fraction
    import pandas as pd
    from .tlaparse import parse_state
    from pylife.materialdata.woehler.fatigue_data import FatigueData
    n = calls = 0
    dev = []
    for b in blocks:
        st = parse_state(b.strip())
        hist = st['hist']
        if len(hist) != 3:           # the leaves contain every shorter history as a prefix
            continue
        n += 1
        t0 = st['tests0']
        tests0 = {i + 1: r for i, r in enumerate(t0)} if isinstance(t0, (list, tuple)) else dict(t0)
        for order in (0, 1):
            ids = sorted(tests0)
            if order:
                ids = ids[1::2] + ids[0::2][::-1]                # a second row order: the zones are sets of row labels
            df = pd.DataFrame({'load': [float(tests0[i]['load']) for i in ids],
                               'cycles': [(1e5 + 1e3 * i) if tests0[i]['frac'] else 1e7 for i in ids],
                               'fracture': [bool(tests0[i]['frac']) for i in ids]}, index=ids)
            with warnings.catch_warnings():
                warnings.simplefilter('ignore')
                fd = FatigueData(df)
                for k, (name, arg, ret) in enumerate(hist):
                    calls += 1
                    tag, val = ret
                    try:
                        if name == 'query':
                            got = {'tr': lambda: fd.finite_infinite_transition, 'fin': lambda: fd.finite_zone, 'inf': lambda: fd.infinite_zone}[arg]()
                            if tag == 'raised':
                                ok, shown = False, 'returned %r' % (got,)
                            elif arg == 'tr':
                                ok, shown = float(got) == float(Fraction(val[0], val[1])), float(got)
                            else:
                                rows = set(val) if not isinstance(val, dict) else set(val)
                                ok, shown = set(got.index) == rows and set(got.columns) >= {'load', 'cycles', 'fracture'}, sorted(got.index)
                        elif name == 'conservative':
                            r = fd.conservative_finite_infinite_transition()
                            ok, shown = r is fd, 'returned another object'
                        elif name == 'set':
                            r = fd.set_finite_infinite_transition(arg / 2.0)
                            ok, shown = r is fd, 'returned another object'
                        else:
                            r = fd.irrelevant_runouts_dropped()
                            ok, shown = (r is fd) == (tag == 'self'), 'same object' if r is fd else 'new object'
                            fd = r
                    except Exception as ex:
                        ok, shown = tag == 'raised' and type(ex).__name__ == val, 'raised %s' % type(ex).__name__
                    if not ok:
                        dev.append({'tests_load_fracture': [[tests0[i]['load'], tests0[i]['frac']] for i in ids], 'calls': [[h[0], h[1]] for h in hist], 'failing_call': k + 1,
                                    'model': [tag, sorted(val) if isinstance(val, (set, frozenset)) else val], 'code': shown})
                        break
    return n, calls, dev[:3]


def fatigue_data():
    """FatigueData.tla: lazily computed / settable transition load and zones of the fatigue_data accessor under every call history of length 3."""
    from . import par
    from .tlaparse import parse_state
    d = os.path.join(SPEC, 'fatiguedata')
    res = tlc.run(os.path.join(d, 'FatigueData.tla'), os.path.join(d, 'MC_FatigueData.cfg'), dump=True, timeout=900)
    if res.violated or res.error:
        return ['MACHINERY FatigueData.tla: %s %s' % (res.violated, (res.error or '')[:200])], 0, 0
    obs = []
    tot = calls = 0
    devs = []
    for n, c, dv in par.pmap(_fd_replay, par.split_dump(res.dump_path, 64), chunksize=1):
        tot += n
        calls += c
        devs += dv
    os.remove(res.dump_path)
    if devs:
        obs.append('OBSERVATION fatigue_data accessor: %d call histories answer differently from FatigueData.tla. first: %s' % (len(devs), json.dumps(devs[0], default=str)))
    # what the doc strings promise beyond that: TLC's counterexamples are the observations
    for inv, text in (('NeverRaises', 'finite_infinite_transition raises IndexError for a table with run-outs and a single load level (the guess from the two highest levels)'),
                      ('DocZonesFractures', 'after conservative_finite_infinite_transition() the zones are still cut at the highest run-out level, not at the transition load it has just set: '
                                            'fractures above the new transition load stay in the infinite zone'),
                      ('DocZones', 'finite_zone / infinite_zone are not "all the tests above / below the transition": run-outs above it are in neither zone, tests exactly on it are in the infinite zone')):
        r2 = tlc.run(os.path.join(d, 'FatigueData.tla'), os.path.join(d, 'MC_FatigueData_%s.cfg' % inv), timeout=600)
        if r2.violated:
            last = r2.trace[-1] if r2.trace else {}
            obs.append('OBSERVATION fatigue_data accessor (model level, confirmed by the replay above): %s. TLC counterexample: tests=%s calls=%s'
                       % (text, json.dumps(last.get('tests'), default=str), json.dumps(last.get('hist'), default=str)))
    return obs, tot, res.distinct


def _rh_replay(args):
    blocks, ef, et = args
    import numpy as np
    import pandas as pd
    from .tlaparse import parse_state
    from pylife.stress.rainflow.recorders import LoopValueRecorder, FullRecorder
    n = 0
    dev = []
    lookups = wrong = 0
    nbf, nbt = len(ef) - 1, len(et) - 1

    def bin_i(v, e):
        if v < e[0] or v > e[-1]:
            return 0
        if v == e[-1]:
            return len(e) - 1
        return max(k + 1 for k in range(len(e) - 1) if e[k] <= v)
    for b in blocks:
        st = parse_state(b.strip())
        cyc, calls = [tuple(c) for c in st['cyc']], list(st['calls'])
        if not cyc:
            continue
        n += 1
        want = np.zeros((nbf, nbt))
        for f, t in cyc:
            i, j = bin_i(f, ef), bin_i(t, et)
            if i and j:
                want[i - 1, j - 1] += 1
        for cls in (LoopValueRecorder, FullRecorder):
            rec = cls()
            pos = 0
            for c in calls:
                part = cyc[pos:pos + c]
                rec.record_values([float(x[0]) for x in part], [float(x[1]) for x in part])
                if cls is FullRecorder:
                    rec.record_index(list(range(2 * pos, 2 * (pos + c), 2)), list(range(2 * pos + 1, 2 * (pos + c) + 1, 2)))
                pos += c
            h = rec.histogram([np.array(ef, dtype=float), np.array(et, dtype=float)])
            got = h.to_numpy().reshape(nbf, nbt)
            ok = np.array_equal(got, want) and list(h.index.names) == ['from', 'to'] and len(h) == nbf * nbt \
                and [float(x) for x in rec.values_from] == [float(c[0]) for c in cyc] and [float(x) for x in rec.values_to] == [float(c[1]) for c in cyc]
            if not ok:
                dev.append({'cycles': cyc, 'cycles_per_call': calls, 'recorder': cls.__name__, 'model': want.tolist(), 'code': got.tolist()})
                break
            if cls is LoopValueRecorder:
                # looking a counted cycle up by its values through the interval labels
                for f, t in set(cyc):
                    i, j = bin_i(f, ef), bin_i(t, et)
                    if not (i and j):
                        continue
                    lookups += 1
                    try:
                        fi = h.index.levels[0].get_loc(float(f))
                        ti = h.index.levels[1].get_loc(float(t))
                        if (fi + 1, ti + 1) != (i, j):
                            wrong += 1
                    except KeyError:
                        wrong += 1
    return n, dev[:2], lookups, wrong


def recorder_histogram():
    """RecorderHisto.tla: cycles recorded call by call, binned like numpy.histogram2d (I); the interval labels of the result (D)."""
    from . import par
    d = os.path.join(SPEC, 'recorder')
    EDGES = {'A': [-2, 0, 2], 'B': [-2, -1, 1, 2], 'Narrow': [-1, 0, 1]}
    obs, tot, states, devs, lookups, wrong = [], 0, 0, [], 0, 0
    for a, b in (('A', 'B'), ('Narrow', 'B'), ('B', 'Narrow')):
        res = tlc.run(os.path.join(d, 'MC_RecorderHisto.tla'), os.path.join(d, 'MC_RecorderHisto_%s%s.cfg' % (a, b)), dump=True, timeout=600)
        if res.violated or res.error:
            return ['MACHINERY RecorderHisto.tla: %s %s' % (res.violated, (res.error or '')[:200])], 0, 0
        states += res.distinct
        for n, dv, lk, wr in par.pmap(_rh_replay, [(blk, EDGES[a], EDGES[b]) for blk in par.split_dump(res.dump_path, 32)], chunksize=1):
            tot += n
            devs += dv
            lookups += lk
            wrong += wr
        os.remove(res.dump_path)
    if devs:
        obs.append('OBSERVATION LoopValueRecorder.histogram: %d recorded histories are binned differently from RecorderHisto.tla (numpy.histogram2d rule). first: %s' % (len(devs), json.dumps(devs[0])))
    r2 = tlc.run(os.path.join(d, 'MC_RecorderHisto.tla'), os.path.join(d, 'MC_RecorderHisto_labels.cfg'), timeout=600)
    if r2.violated and wrong:
        last = r2.trace[-1] if r2.trace else {}
        obs.append('OBSERVATION LoopValueRecorder.histogram: the bins are counted left-closed (numpy) but labelled right-closed (pandas.IntervalIndex.from_breaks): %d of %d look-ups of a counted '
                   'cycle by its from/to values through the interval index land in another bin than the one it was counted in (or in none) -- every value on a bin edge. TLC counterexample: cycles=%s'
                   % (wrong, lookups, json.dumps(last.get('cyc'), default=str)))
    return obs, tot, states


def main():
    build.install()
    rc = 0
    for name, fn in (('timesignal_generator', timesignal_generator), ('held_damage_calculator', held_damage_calculator), ('fatigue_data', fatigue_data), ('recorder_histogram', recorder_histogram)):
        obs, n, states = fn()
        for o in obs:
            print(o)
            if o.startswith('MACHINERY'):
                rc = 2
        print('ext %s: TLC states=%d histories replayed=%d observations=%d' % (name, states, n, len(obs)))
    return rc

"""Known findings: committed file, never written at run time."""
import json, os
from . import ROOT

PATH = os.path.join(ROOT, 'known_findings.json')


def load(pid):
    if not os.path.exists(PATH):
        return []
    return [f for f in json.load(open(PATH))['findings'] if f['property'] == pid and f.get('status') == 'open']

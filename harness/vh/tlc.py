"""Running TLC / SANY and reading back what they found."""
import os, re, shutil, subprocess, time
from . import ROOT, WORK, SPEC
from .tlaparse import parse_state, parse_value

JAR = '/opt/veriftools/tla/tla2tools.jar:/opt/veriftools/tla/CommunityModules-deps.jar'


class TLCResult:
    def __init__(self):
        self.rc = None
        self.out = ''
        self.generated = 0
        self.distinct = 0
        self.depth = 0
        self.wall = 0.0
        self.violated = None      # name of violated invariant / property / 'deadlock' / 'assert'
        self.trace = []           # error trace: list of state dicts
        self.error = None         # machinery error text
        self.coverage = {}        # action -> (count, distinct)
        self.prints = []          # parsed PrintT values
        self.cmd = ''

    @property
    def ok(self):
        return self.error is None and self.violated is None


def java_cmd(main, *args, heap='8g', props=()):
    lib = os.pathsep.join(sorted(os.path.join(SPEC, d) for d in os.listdir(SPEC) if os.path.isdir(os.path.join(SPEC, d))))
    return ['java', '-XX:+UseParallelGC', '-Xss512m', '-Xmx' + heap, '-DTLA-Library=' + lib,
            *['-D' + p for p in props], '-cp', JAR, main, *args]


def sany(tla_path):
    p = subprocess.run(java_cmd('tla2sany.SANY', tla_path, heap='1g'), capture_output=True, text=True,
                       cwd=os.path.dirname(tla_path))
    ok = p.returncode == 0 and 'Semantic errors' not in p.stdout and '*** Errors' not in p.stdout \
        and 'Fatal errors' not in p.stdout and 'Parse Error' not in p.stdout
    return ok, p.stdout + p.stderr


def run(tla_path, cfg_path=None, workdir=None, workers=16, dump=False, coverage=False, simulate=None,
        depth=None, seed=None, timeout=1800, env=None, deadlock=False, heap='8g', extra=(), dfs_queue=False):
    """Run TLC on tla_path with cfg_path. Returns TLCResult.  workdir receives metadir, dump file."""
    r = TLCResult()
    mod = os.path.splitext(os.path.basename(tla_path))[0]
    workdir = workdir or os.path.join(WORK, 'tlc', mod)
    if os.path.isdir(workdir):
        shutil.rmtree(workdir, ignore_errors=True)
    os.makedirs(workdir, exist_ok=True)
    args = ['-workers', str(workers), '-metadir', os.path.join(workdir, 'm'), '-noGenerateSpecTE']
    if cfg_path:
        args += ['-config', cfg_path]
    if not deadlock:
        args += ['-deadlock']
    if dump:
        args += ['-dump', os.path.join(workdir, 'states')]
    if coverage:
        args += ['-coverage', '1']
    if simulate:
        args += ['-simulate', simulate]
    if depth is not None:
        args += ['-depth', str(depth)]
    if seed is not None:
        args += ['-seed', str(seed)]
    args += list(extra)
    args += [tla_path]
    props = ['tlc2.tool.queue.IStateQueue=StateDeque'] if dfs_queue else []
    cmd = java_cmd('tlc2.TLC', *args, heap=heap, props=props)
    r.cmd = ' '.join(cmd)
    e = dict(os.environ)
    if env:
        e.update({k: str(v) for k, v in env.items()})
    t0 = time.time()
    try:
        p = subprocess.run(cmd, capture_output=True, text=True, timeout=timeout, env=e,
                           cwd=os.path.dirname(tla_path))
        r.rc = p.returncode
        r.out = p.stdout + p.stderr
    except subprocess.TimeoutExpired as ex:
        r.rc = -9
        r.out = (ex.stdout.decode() if isinstance(ex.stdout, bytes) else (ex.stdout or ''))
        r.error = 'TLC timeout after %ss' % timeout
    r.wall = time.time() - t0
    r.dump_path = os.path.join(workdir, 'states.dump') if dump else None
    _parse_output(r)
    with open(os.path.join(workdir, 'tlc.out'), 'w') as f:
        f.write(r.cmd + '\n' + r.out)
    return r


def _parse_output(r):
    out = r.out
    m = re.search(r'(\d+) states generated, (\d+) distinct states found', out)
    if m:
        r.generated, r.distinct = int(m.group(1)), int(m.group(2))
    m = re.search(r'depth of the complete state graph search is (\d+)', out)
    if m:
        r.depth = int(m.group(1))
    m = re.search(r'Invariant (\S+) is violated', out)
    if m:
        r.violated = m.group(1)
    m2 = re.search(r'Action property (\S+) is violated', out) or re.search(r'Temporal properties were violated', out)
    if m2 and not r.violated:
        r.violated = m2.group(1) if m2.groups() else 'temporal'
    if 'Deadlock reached' in out and not r.violated:
        r.violated = 'deadlock'
    if re.search(r'The first argument of Assert evaluated to FALSE', out) and not r.violated:
        r.violated = 'assert'
    if 'POSTCONDITION' in out and 'violated' in out and not r.violated:
        r.violated = 'postcondition'
    if r.violated:
        r.trace = _parse_error_trace(out)
    elif r.error is None:
        if 'Model checking completed. No error has been found' not in out and 'Progress' not in out \
                and 'Finished in' not in out and 'The number of states generated' not in out:
            r.error = 'TLC did not complete: ' + out[-1500:]
        if re.search(r'^Error:|\bParse Error\b|Semantic errors|Fatal errors|was not found|Unknown operator|evaluating the expression', out, re.M) \
                and 'No error has been found' not in out:
            r.error = 'TLC error: ' + '\n'.join(l for l in out.splitlines() if 'rror' in l)[:2000] + out[-800:]
    # coverage lines:  <Action line .. of module M>: distinct:total
    for m in re.finditer(r'^<(\w+) line (\d+), col \d+ to line \d+, col \d+ of module (\w+)>: (\d+):(\d+)', out, re.M):
        r.coverage[m.group(1)] = (int(m.group(5)), int(m.group(4)))
    for line in out.splitlines():
        s = line.strip()
        if s.startswith('<<"') and s.endswith('>>'):
            try:
                r.prints.append(parse_value(s))
            except Exception:
                pass


def _parse_error_trace(out):
    states = []
    m0 = re.search(r'is violated by the initial state:\n((?:.+\n)+?)\n', out)
    if m0:
        try:
            return [parse_state(m0.group(1).strip())]
        except Exception as ex:
            return [{'_raw': m0.group(1), '_err': str(ex)}]
    for m in re.finditer(r'^State \d+: <[^\n]*>\n((?:(?!^State \d+:|^\d+ states generated|^Error:|^Finished|^The number).*\n)+)', out, re.M):
        try:
            states.append(parse_state(m.group(1).strip()))
        except Exception as ex:  # keep raw
            states.append({'_raw': m.group(1), '_err': str(ex)})
    return states


def parse_simulation_file(path):
    """One behaviour written by `-simulate file=..`: list of (action_name, state dict)."""
    txt = open(path).read()
    res = []
    for m in re.finditer(r'\\\* <(\w+)[^\n]*\n\s*STATE_\d+ ==\s*\n?((?:(?!\\\* <|^=+|^\s*$).*\n?)+)', txt, re.M):
        res.append((m.group(1), parse_state(m.group(2).strip())))
    return res


def validate_traces(tla_path, cfg_path, traces, name, nsplit=8, timeout=1800, heap='3g', key='traces', extra_json=None):
    """Batch trace validation: traces (list of JSON-able trace objects) are split over nsplit TLC processes.
    The trace spec prints <<"V", tid, steps, clause>> for every trace.  Returns dict with
    verdicts: list of (steps, clause) aligned with `traces` (None = no verdict => machinery problem),
    states, generated, invariant violations [(global index, invariant name)], errors."""
    import json
    from concurrent.futures import ThreadPoolExecutor
    base = os.path.join(WORK, 'traces', name)
    if os.path.isdir(base):
        shutil.rmtree(base, ignore_errors=True)
    os.makedirs(base, exist_ok=True)
    nsplit = max(1, min(nsplit, len(traces)))
    per = (len(traces) + nsplit - 1) // nsplit
    jobs = []
    for j in range(nsplit):
        part = traces[j * per:(j + 1) * per]
        if not part:
            continue
        f = os.path.join(base, 'part%d.json' % j)
        doc = {key: part}
        if extra_json:
            doc.update(extra_json)
        with open(f, 'w') as fh:
            json.dump(doc, fh)
        jobs.append((j, j * per, len(part), f))

    def one(job):
        j, off, n, f = job
        r = run(tla_path, cfg_path, workdir=os.path.join(base, 'w%d' % j), workers=2, timeout=timeout,
                env={'TRACE_FILE': f}, heap=heap)
        return job, r

    out = {'verdicts': [None] * len(traces), 'states': 0, 'generated': 0, 'inv': [], 'errors': [], 'wall': 0.0}
    t0 = time.time()
    with ThreadPoolExecutor(max_workers=len(jobs)) as ex:
        for (j, off, n, f), r in ex.map(one, jobs):
            out['states'] += r.distinct
            out['generated'] += r.generated
            for pv in r.prints:
                if len(pv) >= 4 and pv[0] == 'V':
                    out['verdicts'][off + pv[1] - 1] = (pv[2], pv[3]) + tuple(pv[4:])
            if r.violated:
                tidv = None
                for s in r.trace[-1:]:
                    tidv = s.get('tid')
                out['inv'].append((off + tidv - 1 if tidv else None, r.violated, r.trace[-1] if r.trace else None))
            elif r.error:
                out['errors'].append('part %d: %s' % (j, r.error))
    out['wall'] = time.time() - t0
    return out

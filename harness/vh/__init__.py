import os
ROOT = os.path.dirname(os.path.dirname(os.path.dirname(os.path.abspath(__file__))))
WORK = os.environ.get('VERIF_WORK') or os.path.join(ROOT, '.work')      # scratch; tools/mutest.sh uses a private one so that concurrent runs do not collide
EXT_CACHE = os.path.join(ROOT, '.work', 'ext')                              # compiled kernels, named by the hash of extension.pyx (shared)
SPEC = os.path.join(ROOT, 'spec')
REPO = os.environ.get('VERIF_REPO', '/repo')

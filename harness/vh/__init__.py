import os
ROOT = os.path.dirname(os.path.dirname(os.path.dirname(os.path.abspath(__file__))))
WORK = os.path.join(ROOT, '.work')
SPEC = os.path.join(ROOT, 'spec')
REPO = os.environ.get('VERIF_REPO', '/repo')

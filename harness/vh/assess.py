"""Running the FKM-nonlinear assessment pipeline on batches of proportional points."""
import warnings, io, contextlib
import numpy as np
import pandas as pd

BASE = {'MatGroupFKM': 'Steel', 'FinishingFKM': 'none', 'R_m': 600.0, 'R_z': 25.0, 'P_A': 7.2e-5, 'P_L': 2.5, 'c': 1.4,
        'A_sigma': 339.4, 'A_ref': 500.0, 'G': 2.0 / 15, 's_L': 10.0, 'K_p': 3.5, 'x_Einsatz': 3000, 'r': 15.0,
        'max_load_independently_for_nodes': True}


SCATTERED = [7, 3, 9, 4, 1]      # unsorted node ids


def load_series(seq, ratios, layout='plain'):
    """Batch of proportional points as a (load_step, node_id) Series.  layout: see Assessment.tla (Layouts)."""
    ids = SCATTERED[:len(ratios)] if layout == 'scattered_ids' else list(range(len(ratios)))
    if layout == 'node_major':      # rows ordered node by node
        d = {i: pd.Series([float(r) * float(v) for v in seq], index=pd.Index(range(len(seq)), name='load_step')) for i, r in zip(ids, ratios)}
        return pd.concat(d, names=['node_id', 'load_step']).swaplevel()
    idx = pd.MultiIndex.from_product([range(len(seq)), ids], names=['load_step', 'node_id'])
    return pd.Series([float(r) * float(v) for v in seq for r in ratios], index=idx)


def assess(seq, ratios=(1.0,), overrides=None, G=None, single=False, layout='plain'):
    """Returns list (per point) of dicts: ram, raj (cycles, may be inf), ram_inf, raj_inf (infinite-life verdicts)."""
    from pylife.strength.fkm_nonlinear.assessment_nonlinear_standard import perform_fkm_nonlinear_assessment
    p = dict(BASE)
    if overrides:
        p.update(overrides)
    if G is not None:
        if np.isscalar(G):
            p['G'] = float(G)
        else:
            labels = {'scattered_ids': SCATTERED[:len(G)], 'g_labels': [11, 5, 8, 2, 6][:len(G)]}.get(layout, list(range(len(G))))
            p['G'] = pd.Series(list(G), index=pd.Index(labels, name='node_id'))
    if layout == 'np_bool_flag':       # a truthy request that is not the literal True
        p['max_load_independently_for_nodes'] = np.bool_(True)
    ap = pd.Series(p)
    if single:
        ls = pd.Series([float(ratios[0]) * float(v) for v in seq])
        if layout == 'spliced_index':      # labels as left behind by pd.concat([head, new, tail]): not ascending, with repeats
            n = len(ls)
            ls.index = pd.Index([(5 * i + 3) % n for i in range(n)][:n // 2] + list(range(n - n // 2)))
    else:
        ls = load_series(seq, ratios, layout)
    with warnings.catch_warnings(), contextlib.redirect_stdout(io.StringIO()):
        warnings.simplefilter('ignore')
        res = perform_fkm_nonlinear_assessment(ap, ls, calculate_P_RAM=True, calculate_P_RAJ=True)
    n = 1 if single else len(ratios)

    def arr(x):
        a = np.atleast_1d(np.asarray(x, dtype=np.float64)).ravel()
        return a if len(a) == n else np.repeat(a, n)[:n]
    out = []
    ram, raj = arr(res['P_RAM_lifetime_n_cycles']), arr(res['P_RAJ_lifetime_n_cycles'])
    ri, ji = np.atleast_1d(np.asarray(res['P_RAM_is_life_infinite'])).ravel(), np.atleast_1d(np.asarray(res['P_RAJ_is_life_infinite'])).ravel()
    for i in range(n):
        out.append({'ram': float(ram[i]), 'raj': float(raj[i]), 'ram_inf': bool(ri[i] if len(ri) == n else ri[0]), 'raj_inf': bool(ji[i] if len(ji) == n else ji[0])})
    extra = {k: res[k] for k in res if 'lifetime_N_' in k}
    return out, extra


def full(seq, ratios=(1.0,), overrides=None, G=None, layout='plain'):
    """The complete result dictionary of the P_RAJ assessment of a batch (incl. the hysteresis collective with the crack-opening columns)."""
    from pylife.strength.fkm_nonlinear.assessment_nonlinear_standard import perform_fkm_nonlinear_assessment
    p = dict(BASE)
    if overrides:
        p.update(overrides)
    if G is not None:
        p['G'] = pd.Series(list(G), index=pd.Index(range(len(G)), name='node_id'))
    with warnings.catch_warnings(), contextlib.redirect_stdout(io.StringIO()):
        warnings.simplefilter('ignore')
        return perform_fkm_nonlinear_assessment(pd.Series(p), load_series(seq, ratios, layout), calculate_P_RAM=False, calculate_P_RAJ=True)

"""C16 — closed-form material laws are invertible and differentiate consistently."""
import os, warnings
from fractions import Fraction
import numpy as np
from .. import SPEC, tlc
from ..tlaparse import parse_dump

LEVEL = 'model_checking'
TLA = os.path.join(SPEC, 'materials', 'MC_Materials.tla')


def F(q):
    return float(Fraction(q[0], q[1]))


def close(a, b, rel=1e-11, ab=1e-13):
    a, b = np.asarray(a, dtype=np.float64), np.asarray(b, dtype=np.float64)
    return a.shape == b.shape and bool(np.all(np.abs(a - b) <= rel * np.abs(b) + ab))


def check_hooke(inp, out):
    from pylife.materiallaws.hookeslaw import HookesLaw1d, HookesLaw2dPlaneStress, HookesLaw2dPlaneStrain, HookesLaw3d
    E, nu = F(inp['E']), F(inp['nu'])
    s = [F(x) for x in inp['s']]
    v = []
    case = {'E': E, 'nu': nu, 'stress_11_22_33_12_13_23': s}
    h3 = HookesLaw3d(E, nu)
    e3 = h3.strain(*s)
    want = [F(x) for x in out['strain3d']]
    if not close(e3, want):
        v.append(("3D Hooke strain differs", case, want, [float(x) for x in e3]))
    back = h3.stress(*e3)
    if not close(back, s, 1e-10, 1e-12):
        v.append(("3D Hooke: stress(strain(s)) != s", case, s, [float(x) for x in back]))
    # array form
    arr = h3.strain(*[np.array([x, 2 * x]) for x in s])
    if not close([a[0] for a in arr], want) or not close([a[1] for a in arr], [2 * w for w in want]):
        v.append(("3D Hooke array evaluation differs from scalar", case, want, [a.tolist() for a in arr]))
    if not close(h3.G, F(out['G'])) or (out['K'] != (0, 0) and not close(h3.K, F(out['K']))):
        v.append(("shear / bulk modulus do not follow from E and nu", case, [F(out['G']), out['K']], [h3.G, h3.K]))
    ps = HookesLaw2dPlaneStress(E, nu)
    eps = ps.strain(s[0], s[1], s[3])
    wps = [F(x) for x in out['plane_stress_strain']]
    if not close(eps, wps):
        v.append(("plane stress strain differs from the 3D law at zero out-of-plane stress", case, wps, [float(x) for x in eps]))
    bps = ps.stress(eps[0], eps[1], eps[3])
    if not close(bps, [s[0], s[1], s[3]], 1e-10, 1e-12):
        v.append(("plane stress: stress(strain(s)) != s", case, [s[0], s[1], s[3]], [float(x) for x in bps]))
    pe = HookesLaw2dPlaneStrain(E, nu)
    spe = pe.stress(s[0], s[1], s[3])          # the same numbers read as strains e11, e22, g12
    wpe = [F(x) for x in out['plane_strain_stress']]
    if not close(spe, wpe):
        v.append(("plane strain stress differs from the 3D law at zero out-of-plane strain", case, wpe, [float(x) for x in spe]))
    bpe = pe.strain(spe[0], spe[1], spe[3])
    if not close(bpe, [s[0], s[1], s[3]], 1e-10, 1e-12):
        v.append(("plane strain: strain(stress(e)) != e", case, [s[0], s[1], s[3]], [float(x) for x in bpe]))
    # components of mixed types: the integer literal 0 (or an integer array) next to fractional values
    fr = [0, 1.25e-3, -2.5e-4, 0, 7.5e-4, 0]
    ref3 = h3.stress(*[float(x) for x in fr])
    mix3 = h3.stress(*fr)
    mixa = h3.stress(np.array([0, 0]), np.array([1.25e-3, 1.25e-3]), np.array([-2.5e-4, -2.5e-4]), np.array([0, 0]), np.array([7.5e-4, 7.5e-4]), np.array([0, 0]))
    if not (close(np.asarray(mix3, dtype=np.float64).ravel(), np.asarray(ref3, dtype=np.float64).ravel(), 1e-15, 0) and close(np.asarray([np.asarray(c)[0] for c in mixa], dtype=np.float64), np.asarray(ref3, dtype=np.float64).ravel(), 1e-15, 0)):
        v.append(("3D Hooke: integer-typed components next to fractional ones give other stresses than the same numbers as floats", {'E': E, 'nu': nu, 'strain': fr}, [float(x) for x in np.asarray(ref3).ravel()], [float(x) for x in np.asarray(mix3, dtype=np.float64).ravel()]))
    s2 = ps.strain(0, 120.5, 0)
    s2f = ps.strain(0.0, 120.5, 0.0)
    if not close(np.asarray(s2, dtype=np.float64).ravel(), np.asarray(s2f, dtype=np.float64).ravel(), 1e-15, 0):
        v.append(("plane stress: integer-typed components next to fractional ones give other strains", {'E': E, 'nu': nu}, [float(x) for x in np.asarray(s2f).ravel()], [float(x) for x in np.asarray(s2, dtype=np.float64).ravel()]))
    h1 = HookesLaw1d(E)
    if not (close(h1.stress(h1.strain(s[0])), s[0]) and close(h1.strain(s[0]), s[0] / E)):
        v.append(("1D Hooke not invertible", case, s[0], float(h1.stress(h1.strain(s[0])))))
    return v


def check_ro(inp, out):
    from pylife.materiallaws.rambgood import RambergOsgood
    E, K, m, q = F(inp['E']), F(inp['K']), inp['m'], F(inp['q'])
    ro = RambergOsgood(E, K, 1.0 / m)
    s = K * q
    v = []
    case = {'E': E, 'K': K, 'n': 1.0 / m, 'stress': s}
    want = F(out['strain'][0]) + F(out['strain'][1])
    got = float(ro.strain(s))
    if not close(got, want, 1e-11):
        v.append(("Ramberg-Osgood strain is not s/E + sgn(s)(|s|/K)^(1/n)", case, want, got))
    if not close(float(ro.strain(-s)), -got, 1e-15):
        v.append(("strain is not odd", case, -got, float(ro.strain(-s))))
    wc = F(out['compliance'][0]) + F(out['compliance'][1])
    if abs(s) > 0 or m > 1:
        c = float(ro.tangential_compliance(s))
        if not close(c, wc, 1e-11):
            v.append(("tangential compliance is not the derivative of strain", case, wc, c))
        if not close(float(ro.tangential_modulus(s)) * c, 1.0, 1e-12):
            v.append(("tangential modulus is not the reciprocal of the compliance", case, 1.0 / c, float(ro.tangential_modulus(s))))
    # inverse: stress(strain(s)) = s within the solver's documented tolerance (rtol 1e-5, tol 1e-6), scalar and array, independent of neighbours
    tol = lambda x: 1e-5 * abs(x) + 1e-6
    with warnings.catch_warnings():
        warnings.simplefilter('ignore')
        try:
            if abs(want) > 1.0:
                return v          # strains beyond 100 % are outside the physically meaningful range (the Newton solver is not claimed to converge there)
            b = float(ro.stress(want))
            if abs(b - s) > tol(s):
                v.append(("stress(strain(s)) != s beyond the solver tolerance", case, s, b))
            for others in ([0.5 * want, want], [want, want * 1.0000001], [want, ro.strain(2.5 * K)]):
                ba = np.asarray(ro.stress(np.array(others, dtype=np.float64)))
                k = others.index(want)
                if abs(float(ba[k]) - s) > tol(s):
                    v.append(("array evaluation of stress() gives another value than the scalar one / the input stress", {**case, 'neighbours': [float(x) for x in others]}, s, float(ba[k])))
            if inp['q'][1] <= 5:
                wd = F(out['delta_strain'][0]) + F(out['delta_strain'][1])
                d = float(ro.delta_strain(s))
                if not close(d, wd, 1e-11):
                    v.append(("Masing range function is not the doubled curve", case, wd, d))
                bd = float(ro.delta_stress(wd))
                if abs(bd - s) > 2 * tol(s):
                    v.append(("delta_stress(delta_strain(d)) != d", case, s, bd))
                if s > 0:
                    lh = float(ro.lower_hysteresis(s, s))
                    if not close(lh, got, 1e-11):
                        v.append(("lower hysteresis branch does not meet the curve at the reversal point", case, got, lh))
                    la = np.asarray(ro.lower_hysteresis(np.array([s, 0.0, -s]), s))
                    if not close(la, [got, got - float(ro.delta_strain(s)), got - float(ro.delta_strain(2 * s))], 1e-11):
                        v.append(("lower hysteresis branch (array incl. the reversal point) wrong", case, None, la.tolist()))
        except Exception as ex:
            v.append(("Ramberg-Osgood raised %r" % ex, case, None, None))
    return v


def check_ro32(inp, out):
    """n = 2/3: the stress level is K sgn(r) r^2, its plastic strain |r|^3 exactly."""
    from pylife.materiallaws.rambgood import RambergOsgood
    E, K, r = F(inp['E']), F(inp['K']), F(inp['r'])
    ro = RambergOsgood(E, K, 2.0 / 3.0)
    s = K * (1 if r > 0 else -1 if r < 0 else 0) * r * r
    v = []
    case = {'E': E, 'K': K, 'n': '2/3', 'stress': s}
    want = F(out['strain'][0]) + F(out['strain'][1])
    got = float(ro.strain(s))
    if not close(got, want, 1e-11):
        v.append(("Ramberg-Osgood strain is not s/E + sgn(s)(|s|/K)^(1/n)", case, want, got))
    if abs(want) > 1.0:
        return v
    tol = lambda x: 1e-5 * abs(x) + 1e-6
    with warnings.catch_warnings():
        warnings.simplefilter('ignore')
        try:
            b = float(ro.stress(want))
            if not abs(b - s) <= tol(s):
                v.append(("stress(strain(s)) != s beyond the solver tolerance", case, s, b))
            # arrays that contain an exact zero next to other strains: every element as the scalar call
            e2 = float(ro.strain(0.5 * K))
            for others in ([want, 0.0, e2], [0.0, want], [-want, 0.0, want]):
                ba = np.asarray(ro.stress(np.array(others, dtype=np.float64)), dtype=np.float64)
                ref = [float(ro.stress(x)) for x in others]
                if not all(np.isfinite(ba)) or any(abs(x - y) > tol(y) for x, y in zip(ba, ref)):
                    v.append(("array evaluation of stress() with a zero strain among its elements differs from the scalar calls", {**case, 'strains': others}, ref, ba.tolist()))
                bd = np.asarray(ro.delta_stress(np.array([2 * x for x in others], dtype=np.float64)), dtype=np.float64)
                if not all(np.isfinite(bd)) or any(abs(x - 2 * y) > 2 * tol(y) for x, y in zip(bd, ref)):
                    v.append(("delta_stress of an array of doubled strains (with a zero among them) is not twice the stresses", {**case, 'strains': others}, [2 * y for y in ref], bd.tolist()))
        except Exception as ex:
            v.append(("Ramberg-Osgood raised %r" % ex, case, None, None))
    return v


def check_moduli(inp, out):
    from pylife.materiallaws.hookeslaw import HookesLaw2dPlaneStress, HookesLaw2dPlaneStrain, HookesLaw3d
    E, nu = F(inp['E']), F(inp['nu'])
    v = []
    for cls in (HookesLaw3d, HookesLaw2dPlaneStress, HookesLaw2dPlaneStrain):
        try:
            h = cls(E, nu)
            if not (close(h.G, F(out['G']), 1e-12) and close(h.K, F(out['K']), 1e-9)):
                v.append(("shear / bulk modulus do not follow from E and nu", {'E': E, 'nu': nu, 'class': cls.__name__}, [F(out['G']), F(out['K'])], [float(h.G), float(h.K)]))
        except Exception as ex:
            v.append(("%s raised %r for an admissible Poisson ratio" % (cls.__name__, ex), {'E': E, 'nu': nu}, None, None))
    return v


def extreme_ro(chk):
    """Very small hardening exponents with a strength coefficient in Pa: K^(1/n) is beyond the floating-point range, (s/K)^(1/n) is not."""
    from pylife.materiallaws.rambgood import RambergOsgood
    with warnings.catch_warnings():
        warnings.simplefilter('ignore')
        for E, K, n in ((2.1e11, 1.0e9, 0.02), (2.1e11, 1.2e9, 0.01), (7.0e4, 600.0, 0.005)):
            ro = RambergOsgood(E, K, n)
            for q in (0.3, 0.6, 0.8, 1.01):
                chk.evals(1)
                s = q * K
                case = {'E': E, 'K': K, 'n': n, 'stress': s}
                try:
                    eps = float(ro.strain(s))
                    want = s / E + q ** (1.0 / n)
                    c = float(ro.tangential_compliance(s))
                    wc = 1.0 / E + (1.0 / (n * K)) * q ** (1.0 / n - 1.0)
                    m = float(ro.tangential_modulus(s))
                    if not (close(eps, want, 1e-12, 0) and close(c, wc, 1e-11, 0) and close(m * c, 1.0, 1e-12, 0)):
                        chk.violation('Ramberg-Osgood strain / tangential compliance / modulus wrong for a very small hardening exponent', case, [want, wc], [eps, c, m], part='extreme_ro')
                    else:
                        chk.nontrivial(('extreme_ro', E, K, n, q))
                except Exception as ex:
                    chk.violation('Ramberg-Osgood raised %r for a very small hardening exponent' % ex, case, part='extreme_ro')


def true_stress_strain(chk):
    from pylife.materiallaws import true_stress_strain as T
    for e in [-0.5, -0.02, -1e-3, 0.0, 1e-3, 0.02, 0.5, 2.0]:
        for s in (-300.0, 0.0, 150.0):
            chk.evals(1)
            ts = float(T.true_stress(s, e))
            te = float(T.true_strain(e))
            if ts != s * (1.0 + e):
                chk.violation('true stress is not s (1 + e)', {'s': s, 'e': e}, s * (1 + e), ts, part='true')
            if abs(np.expm1(te) - e) > 1e-14 * max(1.0, abs(e)) + 1e-16:
                chk.violation('true strain is not the inverse of the engineering strain (expm1(true_strain(e)) != e)', {'e': e}, e, float(np.expm1(te)), part='true')
            if abs(ts - s * np.exp(te)) > 1e-12 * max(1.0, abs(ts)):
                chk.violation('true stress inconsistent with true strain', {'s': s, 'e': e}, float(s * np.exp(te)), ts, part='true')
            chk.nontrivial(('true', e, s))
    arr = np.array([-0.02, 0.0, 0.3])
    if not np.allclose(T.true_strain(arr), [float(T.true_strain(x)) for x in arr], rtol=0, atol=0):
        chk.violation('true_strain array form differs from scalar', {}, part='true')


def run(chk):
    res = tlc.run(TLA, os.path.join(SPEC, 'materials', 'MC_Materials.cfg'), dump=True, timeout=1800)
    chk.tlc('MC_Materials.cfg', res, 'Hooke 3D / plane stress / plane strain inverses and embeddings, G, K; Ramberg-Osgood (n = 1/m) odd, increasing, Masing, lower branch')
    if res.violated:
        chk.machinery.append('model invariant %s violated: %s' % (res.violated, res.trace[-1:]))
    n = 0
    seen = set()
    if res.dump_path and os.path.exists(res.dump_path):
        for st in parse_dump(res.dump_path):
            n += 1
            try:
                vs = {'hooke': check_hooke, 'ro': check_ro, 'ro32': check_ro32, 'moduli': check_moduli}[st['part']](st['inp'], st['out'])
            except Exception as ex:
                vs = [('%s check raised %r' % (st['part'], ex), {'inp': st['inp']}, None, None)]
            for what, case, exp, got in vs[:2]:
                chk.violation(what, case, exp, got, part=st['part'])
            chk.nontrivial((st['part'], repr(sorted(st['inp'].items()))))
            if st['part'] not in seen and n % 7 == 3:
                seen.add(st['part'])
                chk.sample({'part': st['part'], 'input': st['inp'], 'model_output': st['out']}, cap=4)
        os.remove(res.dump_path)
    chk.evals(n)
    chk.cov['traces_validated_against_impl'] = n
    true_stress_strain(chk)
    extreme_ro(chk)
    chk.cov['rule'] = ('TLC enumerates E x nu (5 values incl. negative and 2/5) x 216 sparse stress states for Hooke, and E x K x m in {2,3,5,8} (n = 1/m covers the FKM range) x 9 stress levels '
                       'incl. the onset of yielding for Ramberg-Osgood, in exact rationals; each state is evaluated through the real classes (scalar and array), inverses are required within '
                       'the solver\'s documented tolerance. true_strain (a logarithm) has no lattice and is checked numerically only.')
    chk.cov['rule'] += ' Additional parts: n = 2/3 on square stress levels with arrays containing an exact zero, moduli for nu up to 4e-6 below 1/2, integer-typed components next to fractional ones, hardening exponents 0.02..0.005 with K in Pa.'
    chk.cov['exhaustive'] = True
    chk.assumptions += ['rational lattice; closed forms compared at rel 1e-11, Newton inverses at rtol 1e-5 / tol 1e-6 as documented']


def replay(chk, path):
    print(open(path).read())
    return 0

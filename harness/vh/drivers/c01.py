"""C01 — rainflow counting is independent of chunking; chunk bookkeeping maps indices back."""
import os, random
import numpy as np
from .. import SPEC, tlc, rf, par
from ..tlaparse import parse_state

LEVEL = 'model_checking'
TLA = os.path.join(SPEC, 'rainflow', 'MC_Chunked.tla')
TRACE_TLA = os.path.join(SPEC, 'rainflow', 'Trace_Rainflow.tla')
TRACE_CFG = os.path.join(SPEC, 'rainflow', 'Trace_Rainflow.cfg')


def _code_obs(kind, sig, cuts, stepwise_map=False):
    try:
        bad = []
        if stepwise_map and kind != 'F':
            # the chunk bookkeeping is queried after EVERY call (streaming use), not only at the end
            done = []

            def per_step(det):
                done.append(1)
                ok, b = rf.chunk_map_ok(det, sig, list(cuts[:len(done)]))
                if not ok:
                    bad.append({'after_chunk': len(done), **b})
            det = rf.run_chunked(kind, sig, cuts, per_step=per_step)
        else:
            det = rf.run_chunked(kind, sig, cuts)
        p = rf.project(det, kind)
        if bad:
            p['chunk_map_error'] = bad[0]
        return p, det
    except Exception as ex:  # the code under test raised: that is an observation, not a harness failure
        return {'raised': repr(ex)}, None


def _replay_blocks(blocks):
    """Replay dumped model states into the real detectors. Returns (n, nontrivial keys, drift, violations, samples)."""
    n = 0
    nontriv = []
    drift, viol, samples = [], [], []
    for b in blocks:
        st = parse_state(b.strip())
        fed, cuts = st['fed'], st['cuts']
        if not fed:
            continue
        n += 1
        for kind, key in (('3', 'd3'), ('4', 'd4'), ('F', 'dF')):
            m = st[key]
            exp = rf.model_obsF(m, cuts) if kind == 'F' else rf.model_obs34(m)
            got, det = _code_obs(kind, fed, cuts, stepwise_map=len(cuts) >= 3)
            cm_err = got.pop('chunk_map_error', None) if isinstance(got, dict) else None
            if cm_err:
                viol.append(('chunk_local_index (queried after every chunk) maps a reported index to the wrong chunk/position', {'detector': kind, 'signal': fed, 'chunks': cuts}, None, cm_err))
            if kind == 'F':
                got = {**got, 'chunks': ()} if 'raised' not in got else got
            if got != exp:
                one, _ = _code_obs(kind, fed, (len(fed),))
                if 'raised' in got or 'raised' in one or any(got.get(k) != one.get(k) for k in ('cyc', 'rv', 'rix')) \
                        or (kind != 'F' and got.get('chunks') != tuple(cuts)):
                    viol.append(('chunked run differs from one-piece run', {'detector': kind, 'signal': fed, 'chunks': cuts},
                                 {'one_piece': one, 'model': exp}, got))
                else:
                    drift.append('detector %s signal %s chunks %s: code %s model %s' % (kind, fed, cuts, got, exp))
            elif det is not None and kind != 'F':
                ok, bad = rf.chunk_map_ok(det, fed, cuts)
                if not ok:
                    viol.append(('chunk_local_index maps a reported index to the wrong chunk/position',
                                 {'detector': kind, 'signal': fed, 'chunks': cuts}, None, bad))
                # drift layer: internal state
                inn = rf.internal(det, kind)
                if inn['tail'] != tuple(m['tail']) or inn['head'] != m['head']:
                    drift.append('detector %s signal %s chunks %s: internal tail/head %s model %s/%s' % (kind, fed, cuts, inn, m['tail'], m['head']))
        if len(cuts) >= 2 and len(st['d4']['cyc']) >= 1:
            nontriv.append((fed, cuts))
        if len(samples) < 2 and len(cuts) >= 3 and len(st['d4']['cyc']) >= 1:
            samples.append({'signal': fed, 'chunks': cuts, 'fourpoint_cycles': st['d4']['cyc'], 'residuals': st['d4']['rv']})
    return n, nontriv, drift[:5], viol[:5], samples


def _replay_flush_blocks(blocks):
    """Extension (flush protocol, not part of C01's statement): replay MC_Flush states; differences are reported as drift."""
    n, drift = 0, []
    for b in blocks:
        st = parse_state(b.strip())
        fed, cuts, flushes = st['fed'], st['cuts'], st['flushes']
        if not fed:
            continue
        n += 1
        for kind, key in (('3', 'd3'), ('4', 'd4'), ('F', 'dF')):
            m = st[key]
            exp = rf.model_obsF(m, cuts) if kind == 'F' else rf.model_obs34(m)
            try:
                tr, det = record_trace(kind, fed, cuts, flushes)
                got = rf.project(det, kind)
                if kind == 'F':
                    got = {**got, 'chunks': ()}
            except Exception as ex:
                got = {'raised': repr(ex)}
            if got != exp and len(drift) < 3:
                drift.append('flush protocol: detector %s signal %s chunks %s flush %s: code %s model %s' % (kind, fed, cuts, flushes, got, exp))
    return n, drift


def random_partition(rng, n):
    cuts = []
    left = n
    while left > 0:
        c = rng.choice([1, 1, 2, 3, rng.randint(1, max(1, left))])
        c = min(c, left)
        cuts.append(c)
        left -= c
    return cuts


def random_signal(rng, n, amp):
    mode = rng.random()
    if mode < 0.3:
        return [rng.randint(-amp, amp) for _ in range(n)]
    if mode < 0.6:   # plateaus and monotone runs
        s, v = [], rng.randint(-amp, amp)
        while len(s) < n:
            k = rng.randint(1, 4)
            step = rng.choice([-3, -2, -1, 0, 0, 1, 2, 3])
            for _ in range(k):
                v = max(-amp, min(amp, v + step))
                s.append(v)
        return s[:n]
    return [rng.choice([-amp, -1, 0, 0, 1, amp, rng.randint(-amp, amp)]) for _ in range(n)]


def record_trace(kind, sig, cuts, flushes=None):
    """Run the real detector chunk by chunk and log the projection after every call."""
    det = rf.new(kind)
    ev = []
    pos = 0
    arr = np.asarray(sig, dtype=np.float64)
    buf = np.empty(max(list(cuts) + [1]), dtype=np.float64)     # one re-used read buffer, overwritten after every call (see rf.run_chunked)
    for i, c in enumerate(cuts):
        fl = bool(flushes[i]) if flushes else False
        buf[:c] = arr[pos:pos + c]
        det.process(buf[:c], flush=fl) if fl else det.process(buf[:c])
        buf[:] = 7.7e77
        pos += c
        p = rf.project(det, kind)
        ev.append({'chunk': [int(x) for x in sig[pos - c:pos]], 'flush': fl, 'cyc': [list(x) for x in p['cyc']], 'rv': list(p['rv']),
                   'rix': list(p['rix']), 'chunks': list(p['chunks'])})
    return {'kind': kind, 'events': ev}, det


def alternating_signals(amp, n):
    """All signals of length n over -amp..amp in which every interior sample is a reversal (mirror of MC_FKM.tla AddSample)."""
    vals = range(-amp, amp + 1)
    def rec(s):
        if len(s) == n:
            yield tuple(s)
            return
        for v in vals:
            if len(s) == 0 or (len(s) == 1 and v != s[0]) or (len(s) >= 2 and (v - s[-1]) * (s[-1] - s[-2]) < 0):
                s.append(v)
                yield from rec(s)
                s.pop()
    yield from rec([])


def _fkm_sweep(args):
    """Replay of the MC_FKM state space: every alternating signal x every single chunk border, FKM detector."""
    amp, n, first = args
    cnt, viol = 0, []
    for sig in alternating_signals(amp, n):
        if sig[0] != first:
            continue
        one, _ = _code_obs('F', sig, (n,))
        for c in range(1, n):
            got, _ = _code_obs('F', sig, (c, n - c))
            cnt += 1
            if got != one and len(viol) < 3:
                viol.append(('chunked run differs from one-piece run', {'detector': 'F', 'signal': list(sig), 'chunks': [c, n - c]}, one, got))
    return cnt, viol


def run(chk):
    quick = chk.tier == 'quick'
    cfg = os.path.join(SPEC, 'rainflow', 'MC_Chunked_quick.cfg' if quick else 'MC_Chunked_thorough.cfg')
    # (A) exhaustive model check + dump of every (signal, partition) state
    res = tlc.run(TLA, cfg, dump=True, timeout=3000, heap="12g")
    chk.tlc(os.path.basename(cfg), res, 'all signals x all chunkings; 17 invariants (C01, C02, C03 model theorems)')
    if res.violated:
        # model-level counterexample: decide on the real code (DESIGN 3.4 case 3)
        st = res.trace[-1] if res.trace else {}
        chk.machinery.append('model invariant %s violated at %s — specification and code must be compared by hand' % (res.violated, st))
    if res.dump_path and os.path.exists(res.dump_path):
        parts = par.split_dump(res.dump_path, 64)
        total = 0
        for n, nontriv, drift, viol, samples in par.pmap(_replay_blocks, parts, chunksize=1):
            total += n
            for k in nontriv:
                chk.nontrivial(k)
            chk.drift += drift
            for s in samples:
                chk.sample(s, cap=3)
            for what, case, exp, got in viol:
                chk.violation(what, case, exp, got, part='replay')
        chk.cov['traces_validated_against_impl'] += total
        chk.evals(total * 3)
        chk.part('replay', states_replayed=total, detectors=3)
        os.remove(res.dump_path)
    # (A') FKM detector on a larger alphabet (its rule depends on the rank structure of |values|): TLC on MC_FKM, and the
    #      same (signal, border) space replayed into the real FKMDetector
    amp, nlen = (2, 9) if quick else (3, 9)
    fcfg = os.path.join(SPEC, 'rainflow', 'MC_FKM_quick.cfg' if quick else 'MC_FKM_thorough.cfg')
    fres = tlc.run(os.path.join(SPEC, 'rainflow', 'MC_FKM.tla'), fcfg, timeout=3000, heap='12g')
    chk.tlc(os.path.basename(fcfg), fres, 'FKM detector, alphabet -3..3, alternating signals, sample-by-sample with explicit chunk close, <= 1 border')
    if fres.violated:
        chk.machinery.append('model invariant %s violated in MC_FKM: %s' % (fres.violated, fres.trace[-1:]))
    jobs = [(amp, n, f) for n in range(3, nlen + 1) for f in range(-amp, amp + 1)]
    tot = 0
    for cnt, viol in par.pmap(_fkm_sweep, jobs, chunksize=1):
        tot += cnt
        for what, case, exp, got in viol:
            chk.violation(what, case, exp, got, part='fkm_sweep')
    chk.evals(tot)
    chk.cov['traces_validated_against_impl'] += tot
    chk.part('fkm_sweep', runs=tot, alphabet='-%d..%d' % (amp, amp), max_len=nlen)
    # (A'') extension beyond C01: the flush protocol (MC_Flush), replayed; mismatches are drift, never a C01 violation
    flcfg = os.path.join(SPEC, 'rainflow', 'MC_Flush_quick.cfg' if quick else 'MC_Flush_thorough.cfg')
    flres = tlc.run(os.path.join(SPEC, 'rainflow', 'MC_Flush.tla'), flcfg, dump=True, timeout=3000, heap='12g')
    chk.tlc(os.path.basename(flcfg), flres, 'extension: flush=True on any chunk; final flush = one-piece flush; tail after flush')
    if flres.violated:
        chk.drift.append('MC_Flush invariant %s violated (extension model)' % flres.violated)
    if flres.dump_path and os.path.exists(flres.dump_path):
        ftot = 0
        for n, drift in par.pmap(_replay_flush_blocks, par.split_dump(flres.dump_path, 64), chunksize=1):
            ftot += n
            chk.drift += drift
        chk.part('flush_extension', states_replayed=ftot)
        chk.cov['traces_validated_against_impl'] += ftot
        os.remove(flres.dump_path)
    # (B') two detectors of the same class alive at once, their chunks arriving in every merge order (Interleave.tla): each ends as it does alone
    ires = tlc.run(os.path.join(SPEC, 'common', 'Interleave.tla'), os.path.join(SPEC, 'common', 'MC_Interleave_33.cfg'), dump=True, timeout=300)
    chk.tlc('MC_Interleave_33.cfg', ires, 'merge orders of two call histories of three calls each; an object depends on its own calls only')
    if ires.dump_path and os.path.exists(ires.dump_path):
        from ..tlaparse import parse_dump
        orders = [st['order'] for st in parse_dump(ires.dump_path) if st['ia'] == 3 and st['ib'] == 3]
        os.remove(ires.dump_path)
        irng = random.Random(chk.seed * 31 + 3)
        npairs = 6 if quick else 40
        nint = 0
        for _ in range(npairs):
            sigs = [random_signal(irng, irng.randint(6, 14), irng.choice([2, 3, 5])) for _ in 'AB']
            cutss = []
            for sg in sigs:
                b = sorted(irng.sample(range(1, len(sg)), 2))
                cutss.append([b[0], b[1] - b[0], len(sg) - b[1]])
            for kind in '34F':
                alone = [_code_obs(kind, sg, (len(sg),))[0] for sg in sigs]
                for order in orders:
                    nint += 1
                    dets = [rf.new(kind), rf.new(kind)]
                    pos, k = [0, 0], [0, 0]
                    bufs = [np.empty(32), np.empty(32)]
                    try:
                        for who in order:
                            w = 0 if who == 'A' else 1
                            c = cutss[w][k[w]]
                            bufs[w][:c] = np.asarray(sigs[w][pos[w]:pos[w] + c], dtype=np.float64)
                            dets[w].process(bufs[w][:c])
                            bufs[w][:] = 7.7e77
                            pos[w] += c
                            k[w] += 1
                        got = [rf.project(d, kind) for d in dets]
                    except Exception as ex:
                        chk.violation('detector raised when two detectors were fed alternately: %r' % ex, {'detector': kind, 'signals': sigs, 'chunks': cutss, 'order': list(order)}, part='interleaved')
                        continue
                    for w in (0, 1):
                        if any(got[w].get(x) != alone[w].get(x) for x in ('cyc', 'rv', 'rix')):
                            chk.violation('a detector fed in chunks while a second detector of the same class is fed in between differs from its one-piece run',
                                          {'detector': kind, 'signals': sigs, 'chunks': cutss, 'order': list(order), 'which': 'AB'[w]}, alone[w], got[w], part='interleaved')
                            break
                    else:
                        chk.nontrivial(('interleaved', kind, tuple(sigs[0]), tuple(sigs[1]), order))
        chk.evals(nint)
        chk.cov['traces_validated_against_impl'] += nint
        chk.part('interleaved', runs=nint, merge_orders=len(orders))
    # (C) recorded executions of longer signals, validated by TLC against the spec
    rng = random.Random(chk.seed * 7919 + 17)
    ntr = 240 if quick else 2400
    traces, meta = [], []
    for i in range(ntr):
        n = rng.randint(3, 40 if quick else 70)
        sig = random_signal(rng, n, rng.choice([2, 3, 5, 20]))
        cuts = random_partition(rng, n)
        kind = '34F'[i % 3]
        try:
            tr, det = record_trace(kind, sig, cuts)
        except Exception as ex:
            chk.violation('detector raised on a chunked run: %r' % ex, {'detector': kind, 'signal': sig, 'chunks': cuts}, part='trace')
            continue
        traces.append(tr)
        meta.append((kind, sig, cuts, det))
    out = tlc.validate_traces(TRACE_TLA, TRACE_CFG, traces, 'c01', nsplit=12)
    chk.cov['states'] += out['states']
    chk.cov['transitions'] += out['generated']
    chk.part('trace_validation', traces=len(traces), tlc_states=out['states'], wall_s=round(out['wall'], 1))
    for e in out['errors']:
        chk.machinery.append('trace validation: ' + e)
    for gi, inv, st in out['inv']:
        chk.machinery.append('invariant %s failed on the model state of an accepted trace %s' % (inv, meta[gi][:3] if gi is not None else '?'))
    acc = 0
    for (kind, sig, cuts, det), v in zip(meta, out['verdicts']):
        chk.evals(1)
        if v is None:
            if not out['inv'] and not out['errors']:
                chk.machinery.append('no verdict for a trace')
            continue
        steps, clause = v[0], v[1]
        if clause == 'ok':
            acc += 1
            ok, bad = (True, None) if kind == 'F' else rf.chunk_map_ok(det, sig, cuts)
            if not ok:
                chk.violation('chunk_local_index maps a reported index to the wrong chunk/position',
                              {'detector': kind, 'signal': sig, 'chunks': cuts}, None, bad, part='trace')
            if len(cuts) >= 2 and len(det.recorder.values_from) > 0:
                chk.nontrivial((tuple(sig), tuple(cuts), kind))
            continue
        # rejected: is the property itself broken on the code?
        got, _ = _code_obs(kind, sig, cuts)
        one, _ = _code_obs(kind, sig, (len(sig),))
        if any(got.get(k) != one.get(k) for k in ('cyc', 'rv', 'rix')):
            chk.violation('chunked run differs from one-piece run (trace rejected at step %d, clause %s)' % (steps, clause),
                          {'detector': kind, 'signal': sig, 'chunks': cuts}, one, got, part='trace')
        else:
            chk.drift.append('trace rejected (clause %s at step %d) but chunked = one-piece on the code: detector %s signal %s' % (clause, steps, kind, sig))
    chk.cov['traces_validated_against_impl'] += acc
    if traces:
        chk.sample({'recorded_trace': {'kind': traces[0]['kind'], 'events': traces[0]['events'][:3]}}, cap=4)
    chk.cov['rule'] = ('TLC enumerates every signal over Vals up to MaxLen and every partition into consecutive non-empty chunks '
                       '(each reachable state = one chunked run); every state is replayed into ThreePoint/FourPoint/FKM detectors. '
                       'Non-trivial = >= 2 chunks and >= 1 closed cycle; distinct by (signal, partition[, detector]). '
                       'Recorded traces: seeded random integer signals (plateaus, ties) with random partitions, validated by TLC.')
    chk.cov['rule'] += ' Chunks are handed over in ONE re-used read buffer that is overwritten after each call; for >= 3 chunks chunk_local_index is queried after every chunk. Two detectors of the same class fed alternately in all 20 merge orders of 3 + 3 chunks (Interleave.tla) end as alone.'
    chk.cov['exhaustive'] = True
    chk.assumptions += ['integer-valued samples (exact in float64); real-valued behaviour is covered only through order/tie structure',
                        'TLC, SANY, CommunityModules Json; the TLA+ value parser and projection in harness/vh',
                        'kernels rebuilt from the current extension.pyx']


def replay(chk, path):
    import json
    v = json.load(open(path))
    c = v['case']
    got, _ = _code_obs(c['detector'], c['signal'], c['chunks'])
    one, _ = _code_obs(c['detector'], c['signal'], (len(c['signal']),))
    print('chunked :', got)
    print('onepiece:', one)
    bad = any(got.get(k) != one.get(k) for k in ('cyc', 'rv', 'rix'))
    print('VIOLATION property=C01 replay=%s' % path if bad else 'property holds on this case')
    return 1 if bad else 0

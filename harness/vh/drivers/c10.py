"""C10 — FKM-nonlinear assessment: batch independence, sample insensitivity, monotonicity (metamorphic walks decided by TLC)."""
import os, math, random, warnings
import numpy as np
import pandas as pd
from .. import SPEC, tlc, par, findings, assess
from ..tlaparse import parse_state

LEVEL = 'model_checking'
TLA = os.path.join(SPEC, 'assessment', 'Assessment.tla')
TRACE_TLA = os.path.join(SPEC, 'assessment', 'Trace_Assessment.tla')
TRACE_CFG = os.path.join(SPEC, 'assessment', 'Trace_Assessment.cfg')
INF = 2000000000
BASES = {1: [100, -200, 100, -250, 200, 0, 200, -200],
         2: [200, 600, 1000, 200, 60, 500, 1500, 700, 1200, -20],
         3: [120, -120, 200, -200, 240, -240, 120, -120, 280, -280, 80, -80, 240, -240, 320, -320, 320, -320],
         4: [600 if i % 2 == 0 else -600 for i in range(80)],
         5: [346, -122, 194, -246, 170, 80, 128, 46]}      # base 5: trailing repeated value / a last reversal that is carried over into the second HCM pass and closes a hysteresis there
RATIO = {1: 0.2, 2: 0.5, 3: 1.0, 4: 1.2, 5: 3.0}
SCALE = [1.0, 1.25, 1.6]
ROUGH = [12.5, 50.0, 200.0]
PA = [2.3e-1, 1e-3, 1e-5]
BASE_SCALE = {1: 1.0, 2: 0.35, 3: 1.0, 4: 0.9, 5: 1.0}     # base 4 at 0.9: P_RAM damage 1 is reached late in the second HCM pass


def refine(seq, k):
    """Refinement k of a load sequence by samples that are NOT reversals of the repeated sequence."""
    s = list(seq)
    if k == 1:
        return s[:1] + [(s[0] + s[1]) / 2.0] + s[1:]                    # point on the first monotone segment
    if k == 2:
        return s[:3] + [s[2]] + s[3:]                                   # repeated value
    if k == 3:
        return s + [s[-1], s[-1]]                                       # trailing plateau of three equal values
    if k == 4:
        return [s[0]] + s                                               # leading repeat
    if k == 5:
        return s + [(s[-1] + s[0]) / 2.0] if s[-1] != s[0] else s + [s[-1]]   # point on the junction segment last -> first
    if k == 6:
        return s[:5] + [(s[4] + s[5]) / 2.0] + s[5:]
    raise ValueError(k)


def run_cfg(cfg):
    seq = [BASE_SCALE[cfg['base']] * SCALE[cfg['scale']] * v for v in BASES[cfg['base']]]
    for k in sorted(cfg['refs']):
        seq = refine(seq, k)
    others = [RATIO[r] for r in cfg['others']]
    ratios = ([1.0] + others) if cfg['trackedFirst'] else (others + [1.0])
    pos = 0 if cfg['trackedFirst'] else len(ratios) - 1
    G = None
    if cfg['perPointG'] and len(ratios) > 1:
        G = [2.0 / 15 if i == pos else (3.0 if i % 2 else 0.8) for i in range(len(ratios))]
    over = {'R_z': ROUGH[cfg['rough']], 'P_A': PA[cfg['pa']], 'R_m': 400.0}
    res, extra = assess.assess(seq, ratios, over, G=G, single=(len(ratios) == 1 and not cfg.get('force_multi')), layout=cfg.get('layout', 'plain'))
    return res[pos], {'sequence': seq, 'ratios': ratios, 'tracked_position': pos, 'G': G, 'layout': cfg.get('layout', 'plain'), **over}


def mlog(x):
    if x is None or not np.isfinite(x):
        return INF
    if x <= 0:
        return -INF // 2
    return int(round((2 ** 20) * math.log2(x)))


def obs_record(o):
    return {'ram': mlog(o['ram']), 'raj': mlog(o['raj']), 'ram_inf': bool(o['ram_inf']), 'raj_inf': bool(o['raj_inf']), 'n10': 0, 'n50': 0, 'n90': 0}


def apply_action(cfg, a, arg):
    c = dict(cfg)
    if a == 'AddPoint':
        c['others'] = tuple(cfg['others']) + (arg,)
    elif a == 'DropPoint':
        c['others'] = tuple(cfg['others'])[:-1]
    elif a == 'MoveTracked':
        c['trackedFirst'] = not cfg['trackedFirst']
    elif a == 'ToggleG':
        c['perPointG'] = not cfg['perPointG']
    elif a == 'Relayout':
        c['layout'] = arg
    elif a == 'Refine':
        c['refs'] = frozenset(cfg['refs']) | {arg}
    elif a == 'ScaleUp':
        c['scale'] = cfg['scale'] + 1
    elif a == 'Roughen':
        c['rough'] = cfg['rough'] + 1
    elif a == 'TightenPA':
        c['pa'] = cfg['pa'] + 1
    return c


def _walk(args):
    base, hist = args
    cfg = {'base': base, 'refs': frozenset(), 'scale': 0, 'rough': 0, 'pa': 0, 'others': (), 'trackedFirst': True, 'perPointG': False, 'layout': 'plain'}
    try:
        o, info = run_cfg(cfg)
        trace = {'start': obs_record(o), 'events': []}
        detail = [{'config': info, 'observed': o}]
        for a, arg, rel in hist:
            cfg = apply_action(cfg, a, arg)
            o, info = run_cfg(cfg)
            trace['events'].append({'action': a, 'arg': arg, 'relation': rel, 'obs': obs_record(o)})
            detail.append({'action': [a, arg], 'config': info, 'observed': o})
        return trace, detail, None
    except Exception as ex:
        import traceback
        return None, None, '%r\n%s' % (ex, traceback.format_exc()[-600:])


def _probe(base):
    """P_A = 0.5: the reported 10 / 50 / 90 % lifetimes, for the base sequence and a scaled one."""
    out = []
    for sc in (1.0, 1.6):
        seq = [BASE_SCALE[base] * sc * v for v in BASES[base]]
        try:
            res, extra = assess.assess(seq, (1.0,), {'P_A': 0.5}, single=True)
            rec = obs_record(res[0])
            rec['n10'], rec['n50'], rec['n90'] = (mlog(float(np.asarray(extra['P_RAM_lifetime_N_%d' % p]))) for p in (10, 50, 90))
            rec2 = dict(rec)
            rec2['n10'], rec2['n50'], rec2['n90'] = (mlog(float(np.asarray(extra['P_RAJ_lifetime_N_%d' % p]))) for p in (10, 50, 90))
            out += [({'start': rec, 'events': []}, {'sequence': seq, 'P_A': 0.5, 'which': 'P_RAM', 'N': {p: float(np.asarray(extra['P_RAM_lifetime_N_%d' % p])) for p in (10, 50, 90)}}),
                    ({'start': rec2, 'events': []}, {'sequence': seq, 'P_A': 0.5, 'which': 'P_RAJ', 'N': {p: float(np.asarray(extra['P_RAJ_lifetime_N_%d' % p])) for p in (10, 50, 90)}})]
        except Exception as ex:
            out.append((None, {'sequence': seq, 'error': repr(ex)}))
    return out


def probe_findings(chk):
    """Re-runs the witness of every open finding so that its KNOWN-FINDING line does not depend on which walks were sampled."""
    over = {'R_z': 12.5, 'P_A': 0.23, 'R_m': 400.0}
    for f in findings.load('C10'):
        try:
            m = f.get('match')
            msg = '%s: %s' % (f['id'], f['symptom'])
            if m == 'praj_batch':
                seq = [0.35 * v for v in BASES[2]]
                alone = assess.assess(seq, (1.0,), over, single=True)[0][0]['raj']
                batch = assess.assess(seq, (1.0, 3.0), over)[0][0]['raj']
                if abs(mlog(alone) - mlog(batch)) > 2:
                    chk.known.append(msg)
            elif m == 'pram_class_edge':
                seq = BASES[1]
                alone = assess.assess([0.5 * v for v in seq], (1.0,), {'R_z': 25.0, 'P_A': 7.2e-5, 'R_m': 600.0}, single=True)[0][0]['ram']
                batch = assess.assess(seq, (1.0, 0.5), {'R_z': 25.0, 'P_A': 7.2e-5, 'R_m': 600.0})[0][1]['ram']
                if abs(mlog(alone) - mlog(batch)) > 2:
                    chk.known.append(msg)
            elif m == 'praj_nonmonotone':
                a = assess.assess(BASES[3], (1.0,), {'R_z': 12.5, 'P_A': 1e-5, 'R_m': 400.0}, single=True)[0][0]['raj']
                b = assess.assess(BASES[3], (1.0,), {'R_z': 50.0, 'P_A': 1e-5, 'R_m': 400.0}, single=True)[0][0]['raj']
                if mlog(b) > mlog(a) + 2:
                    chk.known.append(msg)
            chk.evals(2)
        except Exception as ex:
            chk.machinery.append('probe of finding %s failed: %r' % (f.get('id'), ex))


def _praj_calculator(points, nb):
    """A real DamageCalculatorPRAJ on a crafted second-pass collective: point p has d[i] hystereses in class i (at the class mid) and
    its current endurance threshold just above the mid of class q."""
    import pylife.strength.woehler_fkm_nonlinear  # noqa
    from pylife.strength.fkm_nonlinear.damage_calculator import DamageCalculatorPRAJ
    kmax, pde = 1024.0, 1.0
    edges = np.logspace(np.log10(kmax), np.log10(pde), nb + 1)
    mids = (edges[:-1] + edges[1:]) / 2
    H = max(1, max(sum(pt['d']) for pt in points))
    rows = []
    cols = []
    for pt in points:
        P = [mids[i] for i, k in enumerate(pt['d']) for _ in range(k)]
        cols.append(P + [0.5 * pde] * (H - len(P)))            # padding below P_RAJ_D_e: counted in H_0, in no class
    for hi in range(H):
        for pi, pt in enumerate(points):
            rows.append({'hysteresis_index': hi, 'assessment_point_index': pi, 'S_min': 0.0, 'P_RAJ': cols[pi][hi], 'D': 1e-9,
                         'P_RAJ_D': mids[pt['q']] * 1.01, 'run_index': 2})
    df = pd.DataFrame(rows).set_index(['hysteresis_index', 'assessment_point_index'])
    ap = pd.Series({'P_RAJ_klass_max': kmax, 'P_RAJ_D_e': pde, 'P_RAJ_D_0': 8.0, 'd_RAJ': -0.5, 'a_0': 0.01, 'a_end': 0.5, 'l_star': 0.02, 'P_RAJ_Z': 4096.0,
                    'n_bins': nb, 'MatGroupFKM': 'Steel'})
    wc = pd.Series({'P_RAJ_Z': 4096.0, 'P_RAJ_D_0': 8.0, 'd_RAJ': -0.5}).woehler_P_RAJ
    with warnings.catch_warnings():
        warnings.simplefilter('ignore')
        dc = DamageCalculatorPRAJ(df, ap, wc)
    return dc, mids


def _replay_praj(args):
    """MC_PRAJAccum states into the real calculator: x-bar of every point = the double sum over the calculator's own class tables, and = the point alone."""
    blocks, nb = args
    n, nontriv, viol = 0, [], []
    for b in blocks:
        st = parse_state(b.strip())
        batch = [{'q': pt['q'], 'd': list(pt['d'])} for pt in st['batch']]
        n += 1
        case = {'classes': nb, 'points_threshold_class_and_class_counts': [[pt['q'], pt['d']] for pt in batch]}
        try:
            dc, mids = _praj_calculator(batch, nb)
            got = np.atleast_1d(np.asarray(dc._xbar_minus_2, dtype=np.float64))
            for p, pt in enumerate(batch):
                last = mids[pt['q']] * 1.01
                dmg = [(pt['d'][i] / float(np.atleast_1d(dc._component_woehler_curve_P_RAJ.calc_N(mids[i], P_RAJ_D=last))[0]) if mids[i] > last else 0.0) for i in range(nb)]
                want = 0.0
                for j in range(pt['q'], nb - 1):
                    den = sum(dmg[:j + 1])
                    want += float(np.atleast_1d(dc._f(j + 1) - dc._f(j))[0]) / den if abs(den) > 1e-13 else np.inf
                ok = (np.isinf(want) and np.isinf(got[p])) or abs(got[p] - want) <= 1e-9 * abs(want)
                if not ok:
                    viol.append(('P_RAJ lifetime multiple (x-bar - 2) of a point differs from eq. 2.9-138 evaluated on the calculator\'s own class tables'
                                 + (' — it depends on the co-assessed point' if len(batch) > 1 else ''), {**case, 'point': p}, want, float(got[p])))
                    break
            if len(batch) > 1 and batch[0]['q'] != batch[1]['q']:
                nontriv.append((nb, tuple((pt['q'], tuple(pt['d'])) for pt in batch)))
        except Exception as ex:
            viol.append(('DamageCalculatorPRAJ raised %r on a crafted collective' % ex, case, None, None))
    return n, nontriv, viol[:4]


def check_praj_accumulation(chk, quick):
    tla = os.path.join(SPEC, 'fkmnl', 'MC_PRAJAccum.tla')
    cfgname = 'MC_PRAJAccum_fixed.cfg' if quick else 'MC_PRAJAccum_thorough.cfg'
    res = tlc.run(tla, os.path.join(SPEC, 'fkmnl', cfgname), dump=True, timeout=900)
    chk.tlc(cfgname, res, 'P_RAJ crack-growth accumulation: the batched loop as coded = the double sum of eq. 2.9-138 per point; batch independent')
    if res.violated:
        chk.machinery.append('model invariant %s violated: %s' % (res.violated, res.trace[-1:]))
    if not (res.dump_path and os.path.exists(res.dump_path)):
        return
    nb = 4 if quick else 5
    tot = 0
    for n, nontriv, viol in par.pmap(_replay_praj, [(p, nb) for p in par.split_dump(res.dump_path, 32)], chunksize=1):
        tot += n
        for x in nontriv:
            chk.nontrivial(('praj',) + x)
        for what, case, exp, got in viol:
            chk.violation(what, case, exp, got, part='praj_accumulation')
    os.remove(res.dump_path)
    chk.evals(tot)
    chk.cov['traces_validated_against_impl'] += tot
    chk.part('praj_accumulation', batches=tot)


CO_COLS = ['epsilon_min', 'epsilon_max', 'epsilon_min_LF', 'epsilon_max_LF', 'epsilon_open_ein', 'epsilon_open', 'epsilon_open_alt', 'epsilon_min_alt_SP', 'epsilon_max_alt_SP']


def crack_opening_traces(job):
    """One assessment -> one trace per assessment point: the stored crack-opening columns, strains as dense ranks (every decision is a comparison)."""
    base, scale, ratios, G = job
    seq = [BASE_SCALE[base] * scale * v for v in BASES[base]]
    res = assess.full(seq, ratios, {'R_m': 400.0}, G=G)
    c = res['P_RAJ_collective']
    ap = res['assessment_parameters']
    S_F = 0.5 * (0.002 ** float(ap['n_prime']) * float(ap['K_prime']) + float(ap['R_m']))
    out = []
    for p in range(len(ratios)):
        d = c.xs(p, level='assessment_point_index')
        vals = sorted(set([0.0] + [float(x) for col in CO_COLS for x in d[col].to_numpy()]))
        rk = {v: i for i, v in enumerate(vals)}
        steps = []
        for _, r in d.iterrows():
            steps.append({'emin': rk[float(r.epsilon_min)], 'emax': rk[float(r.epsilon_max)], 'eminLF': rk[float(r.epsilon_min_LF)], 'emaxLF': rk[float(r.epsilon_max_LF)],
                          'ein': rk[float(r.epsilon_open_ein)], 'saLarge': bool(r.S_a >= 0.4 * S_F), 'ninf': bool(r.D == 0.0),
                          'case': str(r.case_name), 'eo': rk[float(r.epsilon_open)], 'eoAltOut': rk[float(r.epsilon_open_alt)],
                          'spMinOut': rk[float(r.epsilon_min_alt_SP)], 'spMaxOut': rk[float(r.epsilon_max_alt_SP)], 'dmg': bool(r.is_damage_in_current_hysteresis)})
        out.append(({'zero': rk[0.0], 'steps': steps}, {'base_sequence': base, 'scale': scale, 'ratios': list(ratios), 'G': G, 'point': p}))
    return out


def check_crack_opening(chk, quick):
    jobs = []
    for base in (1, 2, 3):
        for scale in ((1.0,) if quick else (1.0, 1.6)):
            jobs += [(base, scale, (1.0,), None), (base, scale, (1.0, 0.5, 1.2), None), (base, scale, (0.2, 1.0), [3.0, 2.0 / 15]), (base, scale, (3.0, 1.0, 0.5), [0.8, 2.0 / 15, 3.0])]
    traces, meta = [], []
    for res in par.pmap(_co_safe, jobs, chunksize=1):
        if isinstance(res, str):
            chk.violation('the P_RAJ assessment raised: ' + res[:300], {}, part='crack_opening')
            continue
        for tr, info in res:
            traces.append(tr)
            meta.append(info)
    out = tlc.validate_traces(os.path.join(SPEC, 'fkmnl', 'Trace_CrackOpening.tla'), os.path.join(SPEC, 'fkmnl', 'Trace_CrackOpening.cfg'), traces, 'c10_co', nsplit=4)
    chk.cov['states'] += out['states']
    chk.cov['transitions'] += out['generated']
    for e in out['errors']:
        chk.machinery.append('trace validation (crack opening): ' + e)
    acc, cases = 0, set()
    for tr, info, v in zip(traces, meta, out['verdicts']):
        chk.evals(len(tr['steps']))
        if v is None:
            if not out['errors']:
                chk.machinery.append('no verdict for crack-opening trace %s' % (info,))
            continue
        if v[1] == 'ok':
            acc += 1
            cases |= {s['case'] for s in tr['steps']}
            chk.nontrivial(('crack_opening', info['base_sequence'], info['scale'], tuple(info['ratios']), info['point']))
        else:
            chk.violation('crack-opening history of a point rejected by the specification: clause %s at hysteresis %d' % (v[1], v[0]), info, None, tr['steps'][v[0] - 1], part='crack_opening')
    chk.cov['traces_validated_against_impl'] += acc
    chk.part('crack_opening', point_histories=len(traces), accepted=acc, cases_seen=sorted(cases), tlc_states=out['states'])


def _co_safe(job):
    try:
        return crack_opening_traces(job)
    except Exception as ex:
        import traceback
        return '%r %s' % (ex, traceback.format_exc()[-400:])


def run(chk):
    quick = chk.tier == 'quick'
    probe_findings(chk)
    check_praj_accumulation(chk, quick)
    check_crack_opening(chk, quick)
    cfgname = 'MC_Assessment_quick.cfg' if quick else 'MC_Assessment_thorough.cfg'
    res = tlc.run(TLA, os.path.join(SPEC, 'assessment', cfgname), dump=True, timeout=3000, heap='12g')
    chk.tlc(cfgname, res, 'configuration graph of the metamorphic actions; every state is one walk (hist)')
    depth = 3 if quick else 4
    walks = []
    if res.dump_path and os.path.exists(res.dump_path):
        for blocks in par.split_dump(res.dump_path, 1):
            for b in blocks:
                st = parse_state(b.strip())
                if len(st['hist']) == depth:
                    walks.append((st['cfg']['base'], tuple(tuple(h) for h in st['hist'])))
        os.remove(res.dump_path)
    rng = random.Random(chk.seed * 31 + 10)
    walks.sort()
    # stratified seeded sample: by multiset of action kinds
    bykind = {}
    for w in walks:
        bykind.setdefault(tuple(sorted(h[0] for h in w[1])), []).append(w)
    kinds = sorted(bykind)
    rng.shuffle(kinds)
    nwalk = 64 if quick else 400
    chosen = []
    i = 0
    while len(chosen) < nwalk and kinds:
        k = kinds[i % len(kinds)]
        chosen.append(rng.choice(bykind[k]))
        i += 1
    # core walks (prefixes of model walks, always executed): every refinement kind, the monotone actions twice, a batch round trip, per base
    core = []
    for b in (1, 2, 3, 4, 5):
        for k in (1, 2, 3, 4, 5, 6):
            if b != 4 or k in (3, 5):
                core.append((b, (('Refine', k, 'same'),)))
        for a in ('ScaleUp', 'Roughen', 'TightenPA'):
            core.append((b, ((a, 0, 'notlarger'), (a, 0, 'notlarger'))))
        if b != 4:
            core.append((b, (('AddPoint', 2, 'same'), ('ToggleG', 0, 'same'), ('MoveTracked', 0, 'same'))))
            core.append((b, (('AddPoint', 5, 'same'), ('AddPoint', 1, 'same'), ('ToggleG', 0, 'same'))))
            # the same batch handed over differently: G labelled independently of the node ids, unsorted node ids, rows node by node
            core.append((b, (('AddPoint', 2, 'same'), ('ToggleG', 0, 'same'), ('Relayout', 'g_labels', 'same'))))
            core.append((b, (('AddPoint', 5, 'same'), ('AddPoint', 1, 'same'), ('Relayout', 'scattered_ids', 'same'))))
            core.append((b, (('AddPoint', 4, 'same'), ('AddPoint', 2, 'same'), ('Relayout', 'node_major', 'same'))))
            core.append((b, (('AddPoint', 5, 'same'), ('AddPoint', 1, 'same'), ('Relayout', 'np_bool_flag', 'same'))))
            core.append((b, (('Relayout', 'spliced_index', 'same'), ('Refine', 1, 'same'), ('Relayout', 'plain', 'same'))))
    known_walks = set(walks) | {(st_b, h) for st_b, h in core}      # core walks are states of the model at depth <= 3
    chosen = core + [w for w in chosen if w[0] != 4][: max(0, nwalk - len(core))]
    results = par.pmap(_walk, chosen, chunksize=1)
    traces, meta = [], []
    for w, (tr, detail, err) in zip(chosen, results):
        chk.evals(1 + len(w[1]))
        if err:
            chk.violation('the assessment raised along a walk: %s' % err, {'base_sequence': w[0], 'actions': [list(h) for h in w[1]]}, part='walk')
            continue
        traces.append(tr)
        meta.append((w, detail))
    for base in (1, 2, 3):
        for tr, info in _probe(base):
            chk.evals(1)
            if tr is None:
                chk.violation('the assessment raised for P_A = 0.5: %s' % info.get('error'), info, part='probe')
                continue
            traces.append(tr)
            meta.append(((base, ()), [{'config': info}]))
    fs = findings.load('C10')
    acc = 0
    pending = [(tr, w, detail, 0) for tr, (w, detail) in zip(traces, meta)]      # (trace, walk, detail, offset of the trace's first event in the walk)
    for rnd in range(4):
        if not pending:
            break
        out = tlc.validate_traces(TRACE_TLA, TRACE_CFG, [p[0] for p in pending], 'c10_%d' % rnd, nsplit=4)
        chk.cov['states'] += out['states']
        chk.cov['transitions'] += out['generated']
        chk.part('trace_validation', walks=len(pending) if rnd == 0 else 0, tlc_states=out['states'], wall_s=round(out['wall'], 1), walks_in_model=len(walks) if rnd == 0 else 0)
        for e in out['errors']:
            chk.machinery.append('trace validation: ' + e)
        nxt = []
        for (tr, w, detail, off), v in zip(pending, out['verdicts']):
            if v is None:
                if not out['errors']:
                    chk.machinery.append('no verdict for walk %s' % (w,))
                continue
            steps, clause = v[0], v[1]
            if clause == 'ok':
                acc += 1
                chk.nontrivial((w[0], w[1], off))
                continue
            gstep = off + steps                       # index of the failing action in the walk (1-based)
            act = w[1][gstep - 1] if gstep >= 1 and w[1] else ('start', 0, '')
            case = {'base_sequence': w[0], 'actions': [list(h) for h in w[1]], 'failing_step': gstep, 'failing_action': list(act),
                    'before': detail[gstep - 1] if gstep >= 1 else None, 'after': detail[gstep] if gstep < len(detail) else detail[-1]}
            f = None
            for cand in fs:
                # P_RAJ of a point inside a batch deviates from its stand-alone value (by several per cent), so every P_RAJ relation that involves
                # a configuration with co-assessed points is covered by the finding; P_RAJ relations between single-point configurations are not
                if cand.get('match') == 'praj_batch' and clause.startswith('P_RAJ') and \
                        (len(detail[gstep]['config']['ratios']) > 1 or len(detail[gstep - 1]['config']['ratios']) > 1):
                    f = cand
                if cand.get('match') == 'praj_nonmonotone' and clause == 'P_RAJ_lifetime_increased':
                    o_, n_ = (tr['start'] if steps == 1 else tr['events'][steps - 2]['obs']), tr['events'][steps - 1]['obs']
                    if INF not in (o_['raj'], n_['raj']) and n_['raj'] - o_['raj'] <= cand.get('max_increase_micro', 0):
                        f = cand
                if cand.get('match') == 'pram_class_edge' and clause == 'P_RAM_lifetime_changed' and act[0] in ('AddPoint', 'DropPoint', 'MoveTracked') \
                        and (detail[gstep]['config']['tracked_position'] != 0 or detail[gstep - 1]['config']['tracked_position'] != 0):
                    f = cand
            if f:
                msg = '%s: %s' % (f['id'], f['symptom'])
                if msg not in chk.known:
                    chk.known.append(msg)
                # the remainder of the walk is validated as a trace of its own, and the P_RAM part of the known step as well
                o, n = (tr['start'] if steps == 1 else tr['events'][steps - 2]['obs']), tr['events'][steps - 1]['obs']
                if f['match'] in ('praj_batch', 'praj_nonmonotone'):
                    first = detail[gstep]['config']['tracked_position'] == 0 and detail[gstep - 1]['config']['tracked_position'] == 0
                    if f['match'] == 'praj_batch' and act[2] == 'same' and first and (abs(o['ram'] - n['ram']) > 2 if INF not in (o['ram'], n['ram']) else o['ram'] != n['ram']):
                        chk.violation('P_RAM lifetime of the (first) tracked point changed with the batch', case, None, None, part='trace')
                    if act[2] == 'notlarger' and not (o['ram'] == INF or (n['ram'] != INF and n['ram'] <= o['ram'] + 2)):
                        chk.violation('P_RAM lifetime increased (%s)' % act[0], case, None, None, part='trace')
                if steps < len(tr['events']):
                    nxt.append(({'start': tr['events'][steps - 1]['obs'], 'events': tr['events'][steps:]}, w, detail, gstep))
            else:
                chk.violation('assessment walk rejected by the trace specification: %s at step %d (%s)' % (clause, gstep, act[0]), case, None, None, part='trace')
        pending = nxt
    chk.cov['traces_validated_against_impl'] += acc
    if traces:
        chk.sample({'walk': [list(h) for h in meta[0][0][1]], 'trace': traces[0]}, cap=2)
    chk.cov['rule'] = ('TLC enumerates the configuration graph of the actions AddPoint / DropPoint / MoveTracked / ToggleG (per-point gradient) / Refine (6 kinds of non-reversal samples incl. trailing '
                       'plateau and junction point) / ScaleUp / Roughen / TightenPA to depth %d from 3 base sequences (guideline examples); a seeded sample of the walks, stratified by action kinds, is '
                       'executed on perform_fkm_nonlinear_assessment (max_load_independently_for_nodes=True) and every recorded step is decided by Trace_Assessment.tla; plus P_A = 0.5 probes for N_10 <= N_50 <= N_90. '
                       'Non-trivial = accepted walk; distinct by (base, actions).' % depth)
    chk.cov['rule'] += ' Further parts: MC_PRAJAccum states (one or two points, threshold class, class counts) replayed into DamageCalculatorPRAJ on crafted collectives; per-point crack-opening histories of P_RAJ collectives (single points, batches, per-point G) validated by Trace_CrackOpening.tla with strains logged as ranks; Relayout actions (unsorted node ids, node-major rows, G labels, spliced index, numpy bool flag).'
    chk.cov['exhaustive'] = False
    chk.assumptions += ['metamorphic: the relation between two runs is decided, not the absolute lifetime', 'sampled walks (the pipeline costs ~1 s per assessment)']


def replay(chk, path):
    print(open(path).read())
    return 0

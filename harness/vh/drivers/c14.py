"""C14 — load collectives and histograms account for every cycle exactly once."""
import os, warnings, random
from fractions import Fraction
import numpy as np
import pandas as pd
from .. import SPEC, tlc, par, findings
from ..tlaparse import parse_state

LEVEL = 'model_checking'
TLA = os.path.join(SPEC, 'collective', 'MC_Histo.tla')


def close(a, b, rel=1e-12):
    a, b = np.asarray(a, dtype=np.float64), np.asarray(b, dtype=np.float64)
    return a.shape == b.shape and bool(np.all(np.abs(a - b) <= rel * np.maximum(np.abs(b), 1.0)))


def ratio_value(R):
    if R[0] == 'inf':
        return np.inf * R[1]
    return R[1][0] / R[1][1]


def check_collective(inp, out):
    import pylife.stress.collective  # noqa
    f, t = inp['row']
    v = []
    case = {'from': f, 'to': t}
    frames = {
        'from_to': pd.DataFrame({'from': [float(f)], 'to': [float(t)]}),
        'from_to_cycles_level': pd.DataFrame({'from': [float(f)] * 2, 'to': [float(t)] * 2, 'cycles': [3.0, 7.0]}, index=pd.MultiIndex.from_tuples([(1, 'u'), (2, 'v')], names=['element_id', 'scenario'])),
        'range_mean': pd.DataFrame({'range': [abs(f - t) * 1.0], 'mean': [(f + t) / 2.0]}),
    }
    for name, df in frames.items():
        lc = df.load_collective
        got = {'amp2': 2 * lc.amplitude.iloc[0], 'mean2': 2 * lc.meanstress.iloc[0], 'upper': lc.upper.iloc[0], 'lower': lc.lower.iloc[0]}
        for k in got:
            if not close(got[k], out[k]):
                v.append(('%s of the collective is inconsistent' % k, {**case, 'form': name}, out[k], float(got[k])))
        r = float(lc.R.iloc[0])
        want = ratio_value(out['R'])
        if not ((np.isinf(want) and r == want) or close(r, want)):
            v.append(('R = lower/upper differs', {**case, 'form': name}, want, r))
    base = frames['from_to_cycles_level']
    for op, arg, want in (('scale', float(inp['c']), out['scaled']), ('shift', float(inp['d']), out['shifted'])):
        for operand in (arg, pd.Series([arg, arg], index=pd.Index([1, 2], name='element_id'))):
            res = getattr(base.copy(deep=True).load_collective, op)(operand)
            amp2, mean2 = abs(want[0] - want[1]), want[0] + want[1]
            if not (close(2 * res.amplitude.to_numpy(), [amp2] * 2) and close(2 * res.meanstress.to_numpy(), [mean2] * 2) and close(np.sort(res.cycles.to_numpy()), [3.0, 7.0])):
                v.append(('%s does not transform amplitude/mean accordingly or touches the cycle counts' % op, {**case, 'operand': arg, 'per_level': not np.isscalar(operand)},
                          {'amp2': amp2, 'mean2': mean2, 'cycles': [3.0, 7.0]}, {'amp2': (2 * res.amplitude).tolist(), 'mean2': (2 * res.meanstress).tolist(), 'cycles': res.cycles.tolist()}))
    # the same cycle as a load HISTOGRAM (series.load_collective): one class around (from, to) resp. (range, mean); positive scale factors
    # (a negative factor would turn the class intervals round, which pandas' IntervalIndex rejects: observation O10, not claimed)
    cpos = abs(inp['c'])
    fi = pd.IntervalIndex.from_arrays([f - 0.5], [f + 0.5])
    ti = pd.IntervalIndex.from_arrays([t - 0.5], [t + 0.5])
    h_ft = pd.Series([4.0], index=pd.MultiIndex.from_arrays([fi, ti], names=['from', 'to']))
    rng_ = abs(f - t) * 1.0
    h_rm = pd.Series([4.0], index=pd.MultiIndex.from_arrays([pd.IntervalIndex.from_arrays([rng_ - 0.5], [rng_ + 0.5]), pd.IntervalIndex.from_arrays([(f + t) / 2.0 - 0.5], [(f + t) / 2.0 + 0.5])], names=['range', 'mean']))
    for name, h in (('from_to_histogram', h_ft), ('range_mean_histogram', h_rm)):
        if name == 'range_mean_histogram' and rng_ < 0.5:
            continue
        lc = h.load_collective
        if not (close(2 * lc.amplitude.iloc[0], out['amp2']) and close(2 * lc.meanstress.iloc[0], out['mean2']) and close(lc.upper.iloc[0] - lc.lower.iloc[0], out['amp2']) and close(lc.cycles.iloc[0], 4.0)):
            v.append(('histogram class: amplitude / mean / upper / lower inconsistent', {**case, 'form': name}, {'amp2': out['amp2'], 'mean2': out['mean2']}, {'amp2': float(2 * lc.amplitude.iloc[0]), 'mean2': float(2 * lc.meanstress.iloc[0])}))
        # the SAME held histogram object after looking at its amplitude histogram: a query must not change what later queries return
        before = [float(lc.amplitude.iloc[0]), float(lc.meanstress.iloc[0]), float(lc.upper.iloc[0]), float(lc.lower.iloc[0])]
        try:
            ah = lc.amplitude_histogram
            if not close(ah.sum(), 4.0):
                v.append(('amplitude_histogram does not carry the class count', {**case, 'form': name}, 4.0, float(ah.sum())))
        except Exception as ex:
            v.append(('amplitude_histogram raised %r' % ex, {**case, 'form': name}, None, None))
        after = [float(lc.amplitude.iloc[0]), float(lc.meanstress.iloc[0]), float(lc.upper.iloc[0]), float(lc.lower.iloc[0])]
        if not close(before, after):
            v.append(('amplitude / mean / upper / lower of a held histogram change after amplitude_histogram was read', {**case, 'form': name}, before, after))
        # a negative factor: pandas refuses intervals that are turned round (observation O10) - but IF a histogram comes back it must be a consistent one
        try:
            ng = lc.scale(-float(cpos))
            if not (close(2 * ng.amplitude.iloc[0], cpos * out['amp2']) and close(ng.upper.iloc[0] - ng.lower.iloc[0], cpos * out['amp2']) and close(2 * ng.meanstress.iloc[0], -cpos * out['mean2']) and close(ng.cycles.iloc[0], 4.0)):
                v.append(('scaling a histogram by a negative factor returns an inconsistent histogram (amplitude must stay |c| amplitude, upper - lower = 2 amplitude, mean c mean)', {**case, 'form': name, 'factor': -cpos},
                          {'amp2': cpos * out['amp2'], 'mean2': -cpos * out['mean2']}, {'amp2': float(2 * ng.amplitude.iloc[0]), 'upper_minus_lower': float(ng.upper.iloc[0] - ng.lower.iloc[0]), 'mean2': float(2 * ng.meanstress.iloc[0])}))
        except ValueError:
            pass
        sc = lc.scale(float(cpos))
        sh = lc.shift(float(inp['d']))
        if not (close(2 * sc.amplitude.iloc[0], cpos * out['amp2']) and close(2 * sc.meanstress.iloc[0], cpos * out['mean2']) and close(sc.cycles.iloc[0], 4.0)):
            v.append(('scaling a histogram does not scale amplitude and mean / touches the counts', {**case, 'form': name, 'factor': cpos}, [cpos * out['amp2'], cpos * out['mean2']], [float(2 * sc.amplitude.iloc[0]), float(2 * sc.meanstress.iloc[0])]))
        if not (close(2 * sh.amplitude.iloc[0], out['amp2']) and close(2 * sh.meanstress.iloc[0], out['mean2'] + 2 * inp['d']) and close(sh.cycles.iloc[0], 4.0)):
            v.append(('shifting a histogram does not shift the mean only / touches the counts', {**case, 'form': name, 'shift': inp['d']}, [out['amp2'], out['mean2'] + 2 * inp['d']], [float(2 * sh.amplitude.iloc[0]), float(2 * sh.meanstress.iloc[0])]))
    return v


def check_hist(inp, out, rng):
    import pylife.stress.collective  # noqa
    rows, e, em = inp['rows'], list(inp['e']), list(inp['em'])
    v = []
    df = pd.DataFrame({'from': [float(r[0]) for r in rows], 'to': [float(r[1]) for r in rows]})
    case = {'rows_from_to': [list(r) for r in rows], 'range_edges': e, 'mean_edges_x2': em}
    lc = df.load_collective
    for form in ('edges', 'interval_index'):
        bins = [float(x) for x in e] if form == 'edges' else pd.IntervalIndex.from_breaks([float(x) for x in e])
        h = lc.range_histogram(bins).to_pandas()
        if not close(h.to_numpy(), list(out['range'])):
            v.append(('range histogram: class counts are not "each covered cycle in exactly one class"', {**case, 'bins_as': form}, list(out['range']), h.tolist()))
    # equivalent range/mean description gives the same histogram
    rm = pd.DataFrame({'range': [abs(r[0] - r[1]) * 1.0 for r in rows], 'mean': [(r[0] + r[1]) / 2.0 for r in rows]})
    h2 = rm.load_collective.range_histogram([float(x) for x in e]).to_pandas()
    if not close(h2.to_numpy(), list(out['range'])):
        v.append(('range histogram of the equivalent range/mean description differs', case, list(out['range']), h2.tolist()))
    m = lc.histogram([[float(x) for x in e], [x / 2.0 for x in em]]).to_pandas()
    want = [c for row in out['matrix'] for c in row]
    if not close(m.to_numpy(), want):
        v.append(('range/mean histogram differs', case, want, m.tolist()))
    else:
        marg = m.groupby(level='range', sort=False).sum().to_numpy()
        if all(em[0] <= r[0] + r[1] <= em[-1] for r in rows) and not close(marg, list(out['range'])):
            v.append(('range histogram is not the marginal of the range/mean histogram', case, list(out['range']), marg.tolist()))
    # the range/mean description under an index with REPEATED labels (an element_id-only index with several cycles per element) and a cycles column:
    # same members, same histogram; and with non-unit cycles the range histogram is still the marginal of the range/mean histogram
    if len(rows) >= 2 and (sum(r[0] * 7 + r[1] for r in rows) + len(e)) % 3 == 0:      # (a third of the states: the frames are costly to build)
        cyc = [float(2 + (k * 3) % 5) for k in range(len(rows))]
        lab = pd.Index([7 if k < 2 else 4 for k in range(len(rows))], name='element_id')
        rmd = pd.DataFrame({'range': [abs(r[0] - r[1]) * 1.0 for r in rows], 'mean': [(r[0] + r[1]) / 2.0 for r in rows], 'cycles': cyc}, index=lab)
        try:
            lcd = rmd.load_collective
            if not (close(lcd.amplitude.to_numpy(), [abs(r[0] - r[1]) / 2.0 for r in rows]) and close(lcd.meanstress.to_numpy(), [(r[0] + r[1]) / 2.0 for r in rows])
                    and close(lcd.cycles.to_numpy(), cyc) and list(lcd.amplitude.index) == list(lab)):
                v.append(('range/mean description under an index with repeated labels: members / cycles / index differ from what was given', {**case, 'index_labels': list(lab), 'cycles': cyc},
                          [[abs(r[0] - r[1]) / 2.0 for r in rows], cyc], [lcd.amplitude.tolist(), lcd.cycles.tolist()]))
            hd = lcd.range_histogram([float(x) for x in e]).to_pandas()
            if not close(hd.to_numpy(), list(out['range'])):
                v.append(('range histogram of the range/mean description under an index with repeated labels differs', {**case, 'index_labels': list(lab)}, list(out['range']), hd.tolist()))
        except Exception as ex:
            v.append(('range/mean description under an index with repeated labels raised %r' % ex, case, None, None))
        ftc = df.assign(cycles=cyc).load_collective
        hr1 = ftc.range_histogram([float(x) for x in e]).to_pandas().to_numpy()
        hm1 = ftc.histogram([[float(x) for x in e], [x / 2.0 for x in em]]).to_pandas()
        if all(em[0] <= r[0] + r[1] <= em[-1] for r in rows) and not close(hm1.groupby(level='range', sort=False).sum().to_numpy(), hr1):
            v.append(('collective with a cycles column (non-unit cycles): the range histogram is not the marginal of the range/mean histogram', {**case, 'cycles': cyc},
                      hr1.tolist(), hm1.groupby(level='range', sort=False).sum().tolist()))
        # three extra levels, the first of them NAMED 0 (set_index([0, ...]) of a frame with integer column labels): grouped by every level but the axis
        tuples = [(g, nd, k) for g in (30, 10) for nd in (1, 2) for k in range(len(rows))]
        big0 = pd.DataFrame({'from': [float(r[0]) + (1.0 if t[0] == 10 else 0.0) for t in tuples for r in [rows[t[2]]]], 'to': [float(rows[t[2]][1]) for t in tuples]},
                            index=pd.MultiIndex.from_tuples(tuples, names=[0, 'node_id', 'cycle_number']))
        try:
            h0 = big0.load_collective.range_histogram([float(x) for x in e], 'cycle_number').to_pandas()
            shifted = pd.DataFrame({'from': [float(r[0]) + 1.0 for r in rows], 'to': [float(r[1]) for r in rows]}).load_collective.range_histogram([float(x) for x in e]).to_pandas().to_numpy()
            ok0 = list(h0.index.names)[:2] == [0, 'node_id'] and len(h0) == 4 * (len(e) - 1)
            if ok0:
                for g in (30, 10):
                    for nd in (1, 2):
                        part = h0[(h0.index.get_level_values(0) == g) & (h0.index.get_level_values(1) == nd)].to_numpy()
                        ok0 = ok0 and close(part, list(out['range']) if g == 30 else shifted)
            if not ok0:
                v.append(('range histogram along an axis of a collective whose first extra level is named 0: groups are not (level 0, node_id) / differ from the same cycles histogrammed alone',
                          {**case, 'level_names': [0, 'node_id', 'cycle_number']}, list(out['range']), h0.tolist()))
        except Exception as ex:
            v.append(('range histogram along an axis of a collective whose first extra level is named 0 raised %r' % ex, case, None, None))
    # with an extra index level and axis: per group the same counts
    if len(rows) >= 1:
        idx = pd.MultiIndex.from_product([[5, 9], range(len(rows))], names=['element_id', 'cycle_number'])
        big = pd.DataFrame({'from': [float(r[0]) for r in rows] * 2, 'to': [float(r[1]) for r in rows] * 2}, index=idx)
        hg = big.load_collective.range_histogram([float(x) for x in e], 'cycle_number').to_pandas()
        for eid in (5, 9):
            if not close(hg.xs(eid, level='element_id').to_numpy(), list(out['range'])):
                v.append(('range histogram along an axis differs per group', {**case, 'element_id': eid}, list(out['range']), hg.xs(eid, level='element_id').tolist()))
    # groups with DIFFERENT contents under keys that are neither sorted nor contiguous: every group's histogram = that group histogrammed alone
    if len(rows) >= 2:
        groups = {30: rows, 10: rows[:1], 20: rows[1:] + rows[:1] + rows[:1]}
        tuples, fr, to = [], [], []
        for gid, rs in groups.items():
            for k, r in enumerate(rs):
                tuples.append((gid, k)); fr.append(float(r[0])); to.append(float(r[1]))
        big = pd.DataFrame({'from': fr, 'to': to}, index=pd.MultiIndex.from_tuples(tuples, names=['element_id', 'cycle_number']))
        hr = big.load_collective.range_histogram([float(x) for x in e], 'cycle_number').to_pandas()
        hm = big.load_collective.histogram([[float(x) for x in e], [x / 2.0 for x in em]], 'cycle_number').to_pandas()
        for gid, rs in groups.items():
            alone = pd.DataFrame({'from': [float(r[0]) for r in rs], 'to': [float(r[1]) for r in rs]}).load_collective
            wr = alone.range_histogram([float(x) for x in e]).to_pandas().to_numpy()
            wm = alone.histogram([[float(x) for x in e], [x / 2.0 for x in em]]).to_pandas().to_numpy()
            if not close(hr.xs(gid, level='element_id').to_numpy(), wr):
                v.append(('range histogram along an axis: a group (keys 30, 10, 20 in that order) differs from the same cycles histogrammed alone', {**case, 'element_id': gid}, wr.tolist(), hr.xs(gid, level='element_id').tolist()))
            if not close(hm.xs(gid, level='element_id').to_numpy(), wm):
                v.append(('range/mean histogram along an axis: a group (keys 30, 10, 20 in that order) differs from the same cycles histogrammed alone', {**case, 'element_id': gid}, wm.tolist(), hm.xs(gid, level='element_id').tolist()))
    return v


def check_rebin(inp, out, rng, fs, known):
    from pylife.utils.histogram import rebin_histogram, combine_histogram
    h, src, dst = list(inp['h']), [float(x) for x in inp['src']], [float(x) for x in inp['dst']]
    v = []
    want = [float(Fraction(*q)) for q in out['rebinned']]
    encl = inp.get('encl', 0)
    case = {'counts': h, 'source_edges': src, 'target_edges': dst, 'enclosing_class_count': encl}
    hist = pd.Series([float(x) for x in h], index=pd.IntervalIndex.from_breaks(src), name='cycles')
    plain = hist
    if encl:
        # nested source classes: one class over the whole span next to the classes it contains, as combine_histogram leaves them
        coarse = pd.Series([float(encl)], index=pd.IntervalIndex.from_breaks([src[0], src[-1]]), name='cycles')
        hist = combine_histogram([hist, coarse], 'sum') if len(h) > 1 else pd.concat([hist, coarse])
        if not close(hist.sum(), sum(h) + encl):
            v.append(('combine_histogram(sum) of two binnings does not conserve the grand total', case, sum(h) + encl, float(hist.sum())))
            return v
    with warnings.catch_warnings():
        warnings.simplefilter('ignore')
        for order in ('ascending', 'rotated', 'int64'):
            hh = hist if order != 'rotated' else pd.concat([hist.iloc[1:], hist.iloc[:1]])
            if order == 'int64':       # integer-typed class counts, as np.histogram / range_histogram(...).to_pandas() produce them
                hh = hh.astype(np.int64)
            try:
                got = rebin_histogram(hh, pd.IntervalIndex.from_breaks(dst))
                if not close(got.to_numpy(), want):
                    v.append(('re-binned histogram is not the overlap-proportional redistribution (total not conserved / not identity)', {**case, 'class_order': order}, want, got.tolist()))
            except Exception as ex:
                f = next((f for f in fs if f.get('match') == 'single_interval' and len(dst) == 2), None)
                if f:
                    known.add('%s: %s' % (f['id'], f['symptom']))
                else:
                    v.append(('rebin_histogram raised %r for a gap-free binning' % ex, {**case, 'class_order': order}, want, None))
        # integer binning: n equal classes over the histogram's own span -> total conserved, whatever the storage order
        for order in ('ascending', 'rotated', 'descending'):
            hh = {'ascending': hist, 'rotated': pd.concat([hist.iloc[1:], hist.iloc[:1]]), 'descending': hist.iloc[::-1]}[order]
            for nb in (1, 2, 3):
                try:
                    got = rebin_histogram(hh, nb)
                    if len(got) != nb or not close(got.sum(), sum(h) + encl) or not (close(got.index.left.min(), src[0]) and close(got.index.right.max(), src[-1])):
                        v.append(('rebin to %d bins does not conserve the total over the histogram\'s span' % nb, {**case, 'class_order': order}, sum(h), got.tolist()))
                except Exception as ex:
                    if order == 'descending':
                        continue      # a strictly descending IntervalIndex is rejected by pandas' interval_range/overlaps on the unchanged tree as well: not claimed
                    v.append(('rebin to %d bins raised %r' % (nb, ex), {**case, 'class_order': order}, None, None))
        # two-dimensional histogram: every level is re-binned to ITS binning (matched by level name, whatever the level order of the target)
        hist = plain
        if not encl and len(dst) >= 3 and dst[0] <= src[0] and src[-1] <= dst[-1]:
            s_iv = pd.IntervalIndex.from_breaks(src)
            o_iv = pd.IntervalIndex.from_breaks([-2.0, 0.0, 2.0])
            mat = pd.Series([float(h[i] + 2 * j) for i in range(len(h)) for j in range(2)], index=pd.MultiIndex.from_product([s_iv, o_iv], names=['range', 'mean']))
            tgt_r, tgt_m = pd.IntervalIndex.from_breaks(dst), pd.IntervalIndex.from_breaks([-2.0, 2.0, 6.0])
            for names, levels in ((['range', 'mean'], [tgt_r, tgt_m]), (['mean', 'range'], [tgt_m, tgt_r])):
                target = pd.MultiIndex.from_product(levels, names=names)
                try:
                    got = rebin_histogram(mat, target)
                    if not close(got.sum(), mat.sum(), 1e-12):
                        v.append(('two-dimensional re-binning to a covering binning does not conserve the grand total', {**case, 'target_level_order': names}, float(mat.sum()), float(got.sum())))
                except Exception as ex:
                    f = next((f for f in fs if f.get('match') == 'single_interval'), None)
                    v.append(('two-dimensional re-binning raised %r' % ex, {**case, 'target_level_order': names}, None, None))
        # combine by sum conserves the grand total
        other = pd.Series([2.0] * len(h), index=pd.IntervalIndex.from_breaks(src), name='cycles')
        comb = combine_histogram([hist, other, hist.iloc[:1]], 'sum')
        if not close(comb.sum(), hist.sum() + other.sum() + hist.iloc[:1].sum()):
            v.append(('combine_histogram(sum) does not conserve the grand total', case, float(hist.sum() + other.sum() + hist.iloc[:1].sum()), float(comb.sum())))
    return v


def _replay(args):
    blocks, fs, seed, stride = args
    rng = random.Random(seed)
    n, nontriv, viol, known, samples = 0, [], [], set(), []
    seen = set()
    nh = 0
    for b in blocks:
        st = parse_state(b.strip())
        part, inp, out = st['part'], st['inp'], st['out']
        if part == 'hist':
            nh += 1
            if nh % stride:      # thorough tier: TLC checks every histogram state, a fixed eighth of them is replayed (still several times the quick instance)
                continue
        n += 1
        try:
            with warnings.catch_warnings():
                warnings.simplefilter('ignore')
                if part == 'collective':
                    viol += check_collective(inp, out)
                elif part == 'hist':
                    viol += check_hist(inp, out, rng)
                else:
                    viol += check_rebin(inp, out, rng, fs, known)
        except Exception as ex:
            viol.append(('%s check raised %r' % (part, ex), {'inp': inp}, None, None))
        if part == 'hist' and any(r[0] > r[1] for r in inp['rows']) and sum(out['range']) >= 1:
            nontriv.append(('hist', tuple(inp['rows']), tuple(inp['e']), tuple(inp['em'])))
        elif part == 'rebin' and sum(inp['h']) > 0 and tuple(inp['src']) != tuple(inp['dst']):
            nontriv.append(('rebin', tuple(inp['h']), tuple(inp['src']), tuple(inp['dst']), inp['encl']))
        elif part == 'collective':
            nontriv.append(('coll', tuple(inp['row']), inp['c'], inp['d']))
        if part not in seen and (part != 'hist' or len(inp['rows']) >= 2):
            seen.add(part)
            samples.append({'part': part, 'input': inp, 'model_output': out})
    return n, nontriv, viol[:6], sorted(known), samples


def run(chk):
    quick = chk.tier == 'quick'
    cfgname = 'MC_Histo_quick.cfg' if quick else 'MC_Histo_thorough.cfg'
    res = tlc.run(TLA, os.path.join(SPEC, 'collective', cfgname), dump=True, timeout=3000, heap='12g')
    chk.tlc(cfgname, res, 'collective identities; numpy class rule => exactly one class per covered cycle; range = marginal of range/mean; rebin conserves / identity')
    if res.violated:
        chk.machinery.append('model invariant %s violated: %s' % (res.violated, res.trace[-1:]))
    fs = findings.load('C14')
    # probe of the known finding "cycles column ignored"
    for f in fs:
        if f.get('match') == 'cycles_column_ignored':
            import pylife.stress.collective  # noqa
            df = pd.DataFrame({'from': [0.0, 0.0], 'to': [2.0, 4.0], 'cycles': [10.0, 5.0]})
            h = df.load_collective.range_histogram([0.0, 3.0, 6.0]).to_pandas()
            if list(h.to_numpy()) == [1, 1]:
                chk.known.append('%s: %s' % (f['id'], f['symptom']))
            elif not close(h.to_numpy(), [10.0, 5.0]):
                chk.violation('histogram of a collective with a cycles column is neither row count nor cycle count', {'cycles': [10.0, 5.0]}, [10.0, 5.0], h.tolist(), part='cycles')
    if res.dump_path and os.path.exists(res.dump_path):
        parts = par.split_dump(res.dump_path, 64)
        tot = 0
        for n, nontriv, viol, known, samples in par.pmap(_replay, [(c, fs, chk.seed * 100 + i, 1 if quick else 8) for i, c in enumerate(parts)], chunksize=1):
            tot += n
            for x in nontriv:
                chk.nontrivial(x)
            for s in samples:
                if s['part'] not in [q.get('part') for q in chk.cov['samples']]:
                    chk.sample(s, cap=3)
            for m in known:
                if m not in chk.known:
                    chk.known.append(m)
            for what, case, exp, got in viol:
                chk.violation(what, case, exp, got, part='replay')
        chk.evals(tot)
        chk.cov['traces_validated_against_impl'] += tot
        os.remove(res.dump_path)
    chk.cov['rule'] = ('TLC enumerates (i) from/to rows over -3..3 with scale/shift operands, (ii) collectives of 1..MaxRows rows x range-edge sets (single bin, irregular, not covering) x mean-edge sets, '
                       '(iii) histograms x source/target binnings (irregular, finer, coarser, shifted, single class, not covering) and proves the accounting identities in exact arithmetic; '
                       'every state is evaluated through df.load_collective (from/to, from/to+cycles+extra levels, range/mean forms; scalar and per-level scale/shift operands; edges and IntervalIndex bins; axis grouping incl. a level named 0; range/mean description under repeated index labels; non-unit cycles column), '
                       'rebin_histogram (IntervalIndex and integer binnings, ascending/rotated class order, 2-D with both target level orders) and combine_histogram. '
                       'Non-trivial: histograms with a hanging cycle (from > to) and a covered cycle; rebin with different binnings and non-zero content.')
    chk.cov['rule'] += ' Re-binning works on class lists incl. an enclosing source class (nested classes), integer-typed counts; held LoadHistogram queried before/after amplitude_histogram; groups with different contents under unsorted keys; negative histogram scale factors must be refused or consistent.'
    chk.cov['exhaustive'] = True
    chk.assumptions += ['integer loads / edges (exact in float64)', 'the histogram counts ROWS of the collective; a cycles column is ignored by the code (open finding C14-cycles-ignored)']


def replay(chk, path):
    print(open(path).read())
    return 0

"""C08 — Woehler curve: cycles/load inverse pair with the stated scatter semantics."""
import os, random, warnings
import numpy as np
import pandas as pd
from .. import SPEC, tlc, par
from ..tlaparse import parse_state

LEVEL = 'model_checking'
TLA = os.path.join(SPEC, 'woehler', 'MC_Woehler.tla')
INF = 1000000
from scipy.stats import norm as _norm
_Z9 = _norm.ppf(0.9)
PROB = {1: 0.1, 2: 0.5, 3: 0.9, -2: float(_norm.cdf(-4 * _Z9)), 6: float(_norm.cdf(4 * _Z9))}      # index i -> Phi((i - 2) z_0.9)
REL = 1e-9


def p2(e):
    return np.inf if e == INF else 2.0 ** e


def curve_series(c, kden, with_ts=True, with_tn=True):
    d = {'k_1': c['k1'] / kden, 'k_2': (np.inf if c['k2'] == INF else c['k2'] / kden), 'SD': 2.0 ** c['a'], 'ND': 2.0 ** c['b'],
         'TN': 2.0 ** (2 * c['tn']), 'TS': 2.0 ** (2 * c['ts']), 'failure_probability': PROB[c['p']]}
    return pd.Series(d)


def close(got, want, rel=REL):
    got = np.asarray(got, dtype=np.float64)
    want = np.asarray(want, dtype=np.float64)
    if got.shape != want.shape:
        return False
    fin = np.isfinite(want)
    if not np.array_equal(np.isfinite(got), fin):
        return False
    return bool(np.all(np.abs(got[fin] - want[fin]) <= rel * np.abs(want[fin])))


def check_state(st, kden, rng):
    import pylife.materiallaws.woehlercurve  # noqa (accessor registration)
    c, pg, x, out = st['c'], st['pg'], st['x'], st['out']
    viol = []
    src = curve_series(c, kden)
    src0 = src.copy(deep=True)
    case = {'curve': {k: (float(v) if np.isfinite(v) else 'inf') for k, v in src.items()}, 'target_probability': PROB[pg], 'load': 2.0 ** x}
    wc = src.woehler
    own0 = wc.to_pandas().copy(deep=True)
    L = 2.0 ** x
    tie = (c['k2'] == INF and x == out['sd'] and pg != c['p'])      # knee of an original-Miner curve after an inexact 10** shift
    with warnings.catch_warnings():
        warnings.simplefilter('ignore')
        try:
            t = wc.transform_to_failure_probability(PROB[pg])
            if not (close(t.SD, p2(out['sd'])) and close(t.ND, p2(out['nd'])) and close(t.failure_probability, PROB[pg], 1e-15)):
                viol.append(('transform_to_failure_probability gives wrong SD/ND', case, [p2(out['sd']), p2(out['nd'])], [float(t.SD), float(t.ND)]))
            n = wc.cycles(L, PROB[pg])
            want_n = p2(out['cycles'])
            if not close(n, want_n) and not (tie and (close(n, p2(out['nd'])) or close(n, np.inf))):
                viol.append(('cycles(load) differs from the Basquin law of the specification', case, want_n, float(n)))
            if out['cycles'] != INF:
                N = 2.0 ** out['cycles']
                lb = wc.load(N, PROB[pg])
                if not close(lb, p2(out['load_back'])):
                    viol.append(('load(cycles(L)) != L', case, p2(out['load_back']), float(lb)))
                # integer typed cycle numbers must behave like floats
                if out['cycles'] < 62 and out['cycles'] >= 0:
                    for Ni in (int(N), np.int64(int(N))):
                        li = wc.load(Ni, PROB[pg])
                        if not close(li, p2(out['load_back'])):
                            viol.append(('load() of an integer typed cycle number differs from the float result', {**case, 'cycles_type': type(Ni).__name__}, p2(out['load_back']), float(li)))
            lbe = wc.load(2.0 ** (out['nd'] + 1260) if out['nd'] + 1260 < 1000 else 2.0 ** 1000, PROB[pg])
            # cycle numbers beyond the knee as unsigned / signed integer arrays and scalars: as the float value
            nb_exp = out['nd'] + 3
            if 0 <= nb_exp <= 31:
                ref = float(wc.load(2.0 ** nb_exp, PROB[pg]))
                for Ni in (np.array([2 ** nb_exp], dtype=np.uint64), np.array([2 ** nb_exp], dtype=np.uint32), np.array([2 ** nb_exp], dtype=np.int64), np.uint64(2 ** nb_exp)):
                    gi = float(np.atleast_1d(np.asarray(wc.load(Ni, PROB[pg]), dtype=np.float64))[0])
                    if not close(gi, ref, 1e-15):
                        viol.append(('load() for a cycle number beyond the knee given as %s differs from the float result' % (Ni.dtype,), {**case, 'cycles': 2.0 ** nb_exp}, ref, gi))
            # array / list / Series inputs: element-wise identical to scalar evaluation
            xs = [x - kden, x, x + kden]
            arr = wc.cycles(np.array([2.0 ** v for v in xs]), PROB[pg])
            sc = [float(wc.cycles(2.0 ** v, PROB[pg])) for v in xs]
            ser = wc.cycles(pd.Series([2.0 ** v for v in xs], index=pd.Index(['u', 'v', 'w'], name='scenario')), PROB[pg])
            if not (close(arr, sc, 0) and close(ser.to_numpy(), sc, 0) and list(ser.index) == ['u', 'v', 'w']):
                viol.append(('array / Series evaluation differs from element-wise scalar evaluation', case, sc, [np.asarray(arr).tolist(), ser.tolist()]))
            # neighbourhood of the knee (off the lattice): below_limit is the STRICT comparison src < ref, with no tolerance band
            eps = 2.0 ** -20
            k2 = float(src.k_2)
            nb = float(wc.cycles(float(t.SD) * (1 - eps), PROB[pg]))
            want_nb = np.inf if np.isinf(k2) else float(t.ND) * (1 - eps) ** (-k2)
            if not close(nb, want_nb, 1e-9):
                viol.append(('cycles for a load 1e-6 (relative) below the endurance limit are not on the k_2 branch', case, want_nb, nb))
            na = float(wc.cycles(float(t.SD) * (1 + eps), PROB[pg]))
            if not close(na, float(t.ND) * (1 + eps) ** (-float(src.k_1)), 1e-9):
                viol.append(('cycles for a load 1e-6 (relative) above the endurance limit are not on the k_1 branch', case, float(t.ND) * (1 + eps) ** (-float(src.k_1)), na))
            lbk = float(wc.load(float(t.ND) * (1 + eps), PROB[pg]))
            want_lbk = float(t.SD) if np.isinf(k2) else float(t.SD) * (1 + eps) ** (-1.0 / k2)
            if not close(lbk, want_lbk, 1e-9):
                viol.append(('load for a cycle number 1e-6 (relative) beyond the knee is not on the k_2 branch', case, want_lbk, lbk))
            # group law and identity on the real object
            q = rng.choice([1, 2, 3, -2])
            t2 = wc.transform_to_failure_probability(PROB[q]).transform_to_failure_probability(PROB[pg])
            if not (close(t2.SD, t.SD, 1e-12) and close(t2.ND, t.ND, 1e-12)):
                viol.append(('transforming via %s differs from transforming directly' % PROB[q], case, [float(t.SD), float(t.ND)], [float(t2.SD), float(t2.ND)]))
            ti = wc.transform_to_failure_probability(PROB[c['p']])
            if not (close(ti.SD, src.SD, 1e-15) and close(ti.ND, src.ND, 1e-15)):
                viol.append(('transforming to the native probability is not the identity', case, [src.SD, src.ND], [float(ti.SD), float(ti.ND)]))
            # Miner variants change only k_2 and leave the original alone
            for name, k2 in (('miner_original', np.inf), ('miner_elementary', src.k_1), ('miner_haibach', 2 * src.k_1 - 1)):
                mv = getattr(wc, name)()
                mp = mv.to_pandas()
                if not (close(mp.k_2, k2, 1e-15) and all(close(mp[k], own0[k], 0) for k in ('k_1', 'SD', 'ND', 'TN', 'TS', 'failure_probability'))):
                    viol.append(('%s changes more than k_2 (or sets a wrong k_2)' % name, case, k2, mp.to_dict()))
                if not close(wc.k_2, own0.k_2, 0):
                    viol.append(('%s altered the curve it was derived from' % name, case, float(own0.k_2), float(wc.k_2)))
        except Exception as ex:
            viol.append(('woehler accessor raised %r' % ex, case, None, None))
    if not src.equals(src0):
        viol.append(('the pandas object handed in was modified', case, src0.to_dict(), src.to_dict()))
    now = wc.to_pandas()
    if not all(close(now[k], own0[k], 0) for k in own0.index):
        viol.append(('the signal object was modified by calculating with it', case, own0.to_dict(), now.to_dict()))
    return viol


def check_broadcast(states, kden, rng):
    """Several curves (per element) x several loads (per scenario): equals element-by-element scalar evaluation."""
    viol = []
    pick = rng.sample(states, min(4, len(states)))
    if len(pick) < 2:
        return viol, 0
    pg = pick[0]['pg']
    df = pd.DataFrame([curve_series(s['c'], kden) for s in pick], index=pd.Index([10 * i + 3 for i in range(len(pick))], name='element_id'))
    loads = pd.Series([2.0 ** (pick[0]['out']['sd'] + d) for d in (-2 * kden, 0, kden)], index=pd.Index(['a', 'b', 'c'], name='scenario'))
    df0, loads0 = df.copy(deep=True), loads.copy(deep=True)
    with warnings.catch_warnings():
        warnings.simplefilter('ignore')
        try:
            got = df.woehler.cycles(loads, PROB[pg])
            for eid, row in df.iterrows():
                for sc, L in loads.items():
                    want = float(row.woehler.cycles(L, PROB[pg]))
                    g = float(got.loc[(eid, sc)])
                    if not close(g, want, 1e-12):
                        viol.append(('broadcast cycles differ from element-wise scalar evaluation', {'element': eid, 'scenario': sc, 'load': L, 'p': PROB[pg]}, want, g))
        except Exception as ex:
            viol.append(('broadcast evaluation raised %r' % ex, {'curves': len(df)}, None, None))
    if not (df.equals(df0) and loads.equals(loads0)):
        viol.append(('broadcast evaluation modified its operands', {}, None, None))
    # a curve table whose columns hold whole numbers as INTEGERS (typed in by hand / read from a spreadsheet): as the same table in floats, and as curve by curve
    try:
        ti = pd.DataFrame({'k_1': [5, 7, 3], 'SD': [300, 250, 410], 'ND': [1000000, 2000000, 500000]}, index=pd.Index([3, 13, 23], name='element_id'))
        tf = ti.astype(np.float64)
        cyc = pd.Series([3.0e4, 4.5e5, 7.0e6], index=pd.Index(['a', 'b', 'c'], name='scenario'))
        lds = pd.Series([210.0, 333.3, 777.0], index=pd.Index(['a', 'b', 'c'], name='scenario'))
        with warnings.catch_warnings():
            warnings.simplefilter('ignore')
            for pf in (None, 0.1):
                kw = {} if pf is None else {'failure_probability': pf}
                for fn, arg in (('load', cyc), ('cycles', lds)):
                    gi = getattr(ti.woehler, fn)(arg, **kw)
                    gf = getattr(tf.woehler, fn)(arg, **kw)
                    one = [float(getattr(tf.loc[e].woehler, fn)(float(a), **kw)) for e in tf.index for a in arg]
                    if not (close(np.asarray(gi, dtype=np.float64), np.asarray(gf, dtype=np.float64), 1e-12) and close(np.asarray(gf, dtype=np.float64), one, 1e-12)):
                        viol.append(('a curve table with integer-typed columns gives other %s than the same table in floats / curve by curve' % fn, {'failure_probability': pf, 'table': ti.to_dict('list')},
                                     np.asarray(gf, dtype=np.float64).tolist()[:4], np.asarray(gi, dtype=np.float64).tolist()[:4]))
    except Exception as ex:
        viol.append(('curve table with integer-typed columns raised %r' % ex, {}, None, None))
    # security factors of per-element curves for a per-element load distribution whose rows are in ANOTHER order: paired by element, not by position
    try:
        import pylife.strength.fatigue  # noqa
        ids = list(df.index)
        order = ids[1:] + ids[:1]
        dist = pd.DataFrame({'amplitude': [2.0 ** (pick[0]['out']['sd'] + (i % 3)) for i in range(len(ids))], 'cycles': [2.0 ** (12 + 2 * i) for i in range(len(ids))]},
                            index=pd.Index(ids, name='element_id')).loc[order]
        with warnings.catch_warnings():
            warnings.simplefilter('ignore')
            sl = df.fatigue.security_load(dist, PROB[pg])
            sc = df.fatigue.security_cycles(dist, PROB[pg])
            for eid, row in df.iterrows():
                want_l = float(row.woehler.load(dist.loc[eid, 'cycles'], PROB[pg])) / dist.loc[eid, 'amplitude']
                want_c = float(row.woehler.cycles(dist.loc[eid, 'amplitude'], PROB[pg])) / dist.loc[eid, 'cycles']
                gl, gc = float(sl.loc[eid]), float(sc.loc[eid])
                if not (close(gl, want_l, 1e-12) and (close(gc, want_c, 1e-12) or (np.isinf(gc) and np.isinf(want_c)))):
                    viol.append(('security factors of per-element curves for a load distribution given in another row order are not paired element by element',
                                 {'element': eid, 'curve_order': ids, 'distribution_order': order, 'p': PROB[pg]}, [want_l, want_c], [gl, gc]))
                    break
    except Exception as ex:
        viol.append(('security_load / security_cycles raised %r' % ex, {'curves': len(df)}, None, None))
    return viol[:3], len(df) * len(loads)


def _replay(args):
    blocks, kden, seed = args
    rng = random.Random(seed)
    n, nontriv, viol, samples, states = 0, [], [], [], []
    for b in blocks:
        st = parse_state(b.strip())
        states.append(st)
        n += 1
        viol += check_state(st, kden, rng)
        if st['pg'] != st['c']['p'] and st['out']['cycles'] != INF:
            nontriv.append((kden, tuple(sorted(st['c'].items())), st['pg'], st['x']))
        if not samples and st['pg'] != st['c']['p'] and st['c']['ts'] > 0:
            samples.append({'curve_exponents': st['c'], 'slope_denominator': kden, 'goal_probability_index': st['pg'], 'load_exponent': st['x'], 'model_out_exponents': st['out']})
    bv, bn = check_broadcast(states, kden, rng)
    return n + bn, nontriv, viol[:6] + bv, samples


def run(chk):
    quick = chk.tier == 'quick'
    tier = 'quick' if quick else 'thorough'
    for suffix, kden in (('', 1), ('_half', 2)):
        cfgname = 'MC_Woehler_%s%s.cfg' % (tier, suffix)
        res = tlc.run(TLA, os.path.join(SPEC, 'woehler', cfgname), dump=True, timeout=1800)
        chk.tlc(cfgname, res, 'Basquin law on the log2 lattice: inverse, monotone, knee, slopes, Miner variants, scatter ratios, group law, identity')
        if res.violated:
            chk.machinery.append('model invariant %s violated: %s' % (res.violated, res.trace[-1:]))
        if res.dump_path and os.path.exists(res.dump_path):
            parts = par.split_dump(res.dump_path, 48)
            tot = 0
            for n, nontriv, viol, samples in par.pmap(_replay, [(p, kden, chk.seed * 100 + i) for i, p in enumerate(parts)], chunksize=1):
                tot += n
                for k in nontriv:
                    chk.nontrivial(k)
                for s in samples[:1]:
                    chk.sample(s, cap=3)
                for what, case, exp, got in viol:
                    chk.violation(what, case, exp, got, part='replay')
            chk.evals(tot)
            chk.cov['traces_validated_against_impl'] += tot
            os.remove(res.dump_path)
    # scatter range <-> standard deviation conversions (closed forms)
    from pylife.utils.functions import scattering_range_to_std, std_to_scattering_range
    from scipy import stats
    z = stats.norm.ppf(0.9)
    for t in range(0, 12):
        T = 2.0 ** t
        s = scattering_range_to_std(T)
        chk.evals(1)
        if not (close(std_to_scattering_range(s), T, 1e-12) and close(10 ** (2 * z * s), T, 1e-12) and close(scattering_range_to_std(std_to_scattering_range(0.01 * t)), 0.01 * t, 1e-12)):
            chk.violation('scatter range <-> standard deviation conversions are not mutual inverses with T = 10^(2 z_0.9 s)', {'T': T}, T, float(std_to_scattering_range(s)), part='scatter')
    chk.cov['rule'] = ('TLC enumerates curves on the log2 lattice (k_1 in {2,3,5} and {2.5,3.5}; k_2 in {k_1, 2k_1-1, k_1+2, inf}; TS, TN powers of 4; native and goal failure probability '
                       'in {1.5e-7, 10, 50, 90 % (, 1 - 1.5e-7)}; loads around the shifted knee, plus off-lattice probes 2^-20 next to the knee) and proves the algebraic laws; each state is evaluated through pd.Series(...).woehler (transform, cycles, load incl. integer '
                       'typed cycles, array/Series forms, Miner variants, non-mutation of the source object and of the signal) and a sample through DataFrame x Series broadcasting. '
                       'Non-trivial = goal probability differs from native and life finite.')
    chk.cov['rule'] += " Also: tail probabilities Phi(+-4 z_0.9), probes 2^-20 next to the knee, unsigned integer cycle numbers beyond the knee, security factors with the load distribution's rows in another order."
    chk.cov['exhaustive'] = True
    chk.assumptions += ['powers of two are exact in float64; the code\'s 10**(...) shift is inexact, comparisons at rel 1e-9; at the knee of a k_2=inf curve after such a shift either branch is accepted (Tie)',
                        'failure probabilities restricted to Phi(k z_0.9), k in {-4,-1,0,1,4} (probit differences are multiples of z_0.9)']


def replay(chk, path):
    print(open(path).read())
    return 0

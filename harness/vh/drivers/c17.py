"""C17 — equivalent stresses: rotation invariant, match the principal stresses."""
import os, warnings
import numpy as np
import pandas as pd
from .. import SPEC, tlc, par
from ..tlaparse import parse_state

LEVEL = 'model_checking'
TLA = os.path.join(SPEC, 'equistress', 'MC_Equistress.tla')
COLS = ['S11', 'S22', 'S33', 'S12', 'S13', 'S23']


def close(a, b, rel=1e-12, ab=1e-12):
    a, b = np.asarray(a, dtype=np.float64), np.asarray(b, dtype=np.float64)
    return a.shape == b.shape and bool(np.all(np.abs(a - b) <= rel * np.abs(b) + ab))


def expected(st, k=1.0):
    o = st['out']
    m = np.sqrt(o['mises_sq2'] / 2.0)
    return {'mises': k * m, 'tresca': k * o['tresca'], 'max_principal': k * o['lmax'], 'min_principal': k * o['lmin'], 'abs_max_principal': k * o['absmax'],
            'signed_mises_trace': k * o['sign_trace'] * m, 'signed_tresca_trace': k * o['sign_trace'] * o['tresca'],
            'signed_mises_abs_max_principal': k * o['sign_absmax'] * m, 'signed_tresca_abs_max_principal': k * o['sign_absmax'] * o['tresca']}


def exact_float(st):
    n = st['out']['n']
    return (n & (n - 1)) == 0      # n a power of two: the float tensor is exactly the rational one


def diagonal(st):
    return all(x == 0 for x in st['out']['tn'][3:])


def check_values(fn_name, got, st, k, case):
    """Compare one function's value with the definition; ties of a mathematically zero sign indicator are accepted in either direction
    unless the arithmetic of the code is exact for this tensor."""
    o = st['out']
    want = expected(st, k)[fn_name]
    if close(got, want, 1e-11, 1e-11 * k):
        return None
    dyadic = float(k) == 2.0 ** round(np.log2(abs(float(k)))) or float(k) in (3.0,)      # factors with which the scaled components stay exact sums (powers of two; 3 on the small integer lattice)
    tie_trace = o['trace_zero'] and 'trace' in fn_name and (not exact_float(st) or not dyadic)      # a mathematically zero trace is rounding noise of either sign once the components are rounded
    tie_abs = o['absmax_tie'] and 'abs_max' in fn_name and not diagonal(st)
    if (tie_trace or tie_abs) and close(got, -want, 1e-11, 1e-11 * k):
        return None
    return ('%s differs from its definition in terms of the principal stresses' % fn_name, case, float(want), float(got))


def _replay(blocks):
    import pylife.stress.equistress as EQ
    n, nontriv, viol, samples = 0, [], [], []
    sts = [parse_state(b.strip()) for b in blocks]
    fns = ['mises', 'tresca', 'max_principal', 'min_principal', 'abs_max_principal', 'signed_mises_trace', 'signed_tresca_trace',
           'signed_mises_abs_max_principal', 'signed_tresca_abs_max_principal']
    tens = [np.asarray(st['out']['tn'], dtype=np.float64) / float(st['out']['n'] ** 2) for st in sts]
    with warnings.catch_warnings():
        warnings.simplefilter('ignore')
        # scalar evaluation, with scale factors (positive homogeneity incl. very small magnitudes)
        for st, t in zip(sts, tens):
            n += 1
            case = {'principal_values': list(st['l']), 'quaternion': list(st['q']), 'tensor_s11_s22_s33_s12_s13_s23': t.tolist()}
            for k in (1.0, 0.5, 3.0, 2.0 ** -40, 0.1, 123.456):      # the last two are not exactly representable: every product rounds
                for fn in fns:
                    try:
                        got = float(getattr(EQ, fn)(*(k * t)))
                    except Exception as ex:
                        viol.append(('%s raised %r' % (fn, ex), case, None, None))
                        continue
                    r = check_values(fn, got, st, k, {**case, 'scale': k})
                    if r:
                        viol.append(r)
            # integer-typed components (python ints, an int64 column) where the tensor is integral: as the float tensor
            if st['out']['n'] == 1:
                ti = [int(x) for x in st['out']['tn']]
                for fn in fns:
                    try:
                        gi = float(getattr(EQ, fn)(*ti))
                        ga = float(np.asarray(getattr(EQ, fn)(*[np.array([x, x], dtype=np.int64) for x in ti]), dtype=np.float64)[1])
                    except Exception as ex:
                        viol.append(('%s raised %r for integer-typed components' % (fn, ex), case, None, None))
                        continue
                    for got_i in (gi, ga):
                        r = check_values(fn, got_i, st, 1.0, {**case, 'component_type': 'integer'})
                        if r:
                            viol.append(r)
                            break
            pr = np.sort(np.asarray(EQ.principals(*t), dtype=np.float64))
            if not close(pr, sorted(st['l']), 1e-11, 1e-11):
                viol.append(('principals differ from the eigenvalues', case, sorted(st['l']), pr.tolist()))
            if len(set(st['l'])) == 3 and any(st['q'][1:]):
                nontriv.append((tuple(st['l']), tuple(st['q'])))
        # column evaluation + accessor, several tensors per frame
        arr = np.array(tens)
        df = pd.DataFrame(arr, columns=COLS, index=pd.Index([7 * i + 3 for i in range(len(arr))], name='element_id'))
        acc = df.equistress
        for fn in fns:
            try:
                plain = np.asarray(getattr(EQ, fn)(*[arr[:, j] for j in range(6)]), dtype=np.float64)
                a = getattr(acc, fn)()
            except Exception as ex:
                viol.append(('%s (column / accessor) raised %r' % (fn, ex), {'rows': len(arr)}, None, None))
                continue
            if not (np.array_equal(a.to_numpy(), plain) and list(a.index) == list(df.index)):
                viol.append(('accessor %s differs from the plain function row by row' % fn, {'rows': len(arr)}, None, None))
            for i, st in enumerate(sts):
                r = check_values(fn, plain[i], st, 1.0, {'principal_values': list(st['l']), 'quaternion': list(st['q']), 'input': 'column'})
                if r:
                    viol.append(r)
        # the same rows in ONE column at magnitudes 2^-40 ... 2^20 (a guard relative to the largest row would show), and the frame with
        # its tensor columns stored in another order plus a foreign column (components are named, not positional)
        ks = np.array([2.0 ** (-40 if i % 3 == 0 else 20 if i % 3 == 1 else 0) for i in range(len(arr))])
        arr_k = arr * ks[:, None]
        df_k = pd.DataFrame(arr_k, columns=COLS, index=df.index)
        df_perm = df_k[['S23', 'S12', 'S11', 'S33', 'S13', 'S22']].copy()
        df_perm.insert(2, 'temperature', 20.0)
        for fn in fns:
            try:
                plain_k = np.asarray(getattr(EQ, fn)(*[arr_k[:, j] for j in range(6)]), dtype=np.float64)
                a_perm = getattr(df_perm.equistress, fn)().to_numpy()
            except Exception as ex:
                viol.append(('%s (mixed magnitudes / permuted columns) raised %r' % (fn, ex), {'rows': len(arr)}, None, None))
                continue
            for i, st in enumerate(sts):
                r = check_values(fn, plain_k[i], st, ks[i], {'principal_values': list(st['l']), 'quaternion': list(st['q']), 'input': 'column with rows at magnitudes 2^-40, 2^20, 1', 'scale': ks[i]})
                if r:
                    viol.append(r)
                    break
            if not np.array_equal(a_perm, plain_k):
                viol.append(('accessor %s of a frame whose tensor columns are stored in another order differs from the plain function called by component' % fn,
                             {'rows': len(arr), 'column_order': list(df_perm.columns)}, plain_k[:3].tolist(), a_perm[:3].tolist()))
        pa = acc.principals()
        if not np.allclose(pa.to_numpy(), np.sort(np.array([sorted(st['l']) for st in sts], dtype=float), axis=1), atol=1e-11) or list(pa.columns) != ['min_principal', 'med_principal', 'max_principal']:
            viol.append(('accessor principals() wrong / wrong column order', {'rows': len(arr)}, None, None))
        # the accessor object must follow its frame: same object, frame scaled in place
        eq = df.equistress
        t1 = eq.tresca().to_numpy().copy()
        m1 = eq.max_principal().to_numpy().copy()
        df.loc[:, COLS] = df[COLS].to_numpy() * 3.0
        t2 = eq.tresca().to_numpy()
        if not (close(t2, 3.0 * t1, 1e-11, 1e-11) and close(eq.max_principal().to_numpy(), 3.0 * m1, 1e-11, 1e-11)):
            viol.append(('accessor results do not scale with the tensor after the frame was scaled in place (stale state)', {'rows': len(arr)}, (3.0 * t1).tolist()[:3], t2.tolist()[:3]))
    if sts:
        samples.append({'principal_values': sts[-1]['l'], 'quaternion': sts[-1]['q'], 'n2_times_tensor': sts[-1]['out']['tn'], 'n': sts[-1]['out']['n']})
    return n, nontriv, viol[:6], samples


def run(chk):
    quick = chk.tier == 'quick'
    cfgname = 'MC_Equistress_quick.cfg' if quick else 'MC_Equistress_thorough.cfg'
    res = tlc.run(TLA, os.path.join(SPEC, 'equistress', cfgname), dump=True, timeout=3000)
    chk.tlc(cfgname, res, 'T = R D R^T for integer quaternion rotations: component formulas (Mises, trace) are rotation invariant; Mises/Tresca bounds')
    if res.violated:
        chk.machinery.append('model invariant %s violated: %s' % (res.violated, res.trace[-1:]))
    if res.dump_path and os.path.exists(res.dump_path):
        parts = par.split_dump(res.dump_path, 64)
        tot = 0
        for n, nontriv, viol, samples in par.pmap(_replay, parts, chunksize=1):
            tot += n
            for x in nontriv:
                chk.nontrivial(x)
            for s in samples[:1]:
                chk.sample(s, cap=3)
            for what, case, exp, got in viol:
                chk.violation(what, case, exp, got, part='replay')
        chk.evals(tot * 4)
        chk.cov['traces_validated_against_impl'] += tot
        os.remove(res.dump_path)
    # pure shear in Voigt form (a 45 degree image of (tau, -tau, 0): no rational rotation reaches it), normal components +0.0 and -0.0
    import pylife.stress.equistress as EQ
    with warnings.catch_warnings():
        warnings.simplefilter('ignore')
        for tau in (1.0, -30.0, 2.0 ** -40):
            for pos in (3, 4, 5):
                for z in (0.0, -0.0):
                    t = [z, z, z, 0.0, 0.0, 0.0]
                    t[pos] = tau
                    a = abs(tau)
                    want = {'mises': np.sqrt(3.0) * a, 'tresca': 2 * a, 'max_principal': a, 'min_principal': -a, 'signed_mises_trace': np.sqrt(3.0) * a, 'signed_tresca_trace': 2 * a}
                    for fn, w in want.items():
                        chk.evals(1)
                        try:
                            got = float(getattr(EQ, fn)(*t))
                        except Exception as ex:
                            chk.violation('%s raised %r' % (fn, ex), {'tensor_s11_s22_s33_s12_s13_s23': t}, part='pure_shear')
                            continue
                        if not close(got, w, 1e-12, 1e-300):
                            chk.violation('%s of a pure shear state differs from its definition (zero trace: sign +1, also when the normal components are -0.0)' % fn,
                                          {'tensor_s11_s22_s33_s12_s13_s23': [repr(x) for x in t]}, float(w), got, part='pure_shear')
                    chk.nontrivial(('pure_shear', tau, pos, repr(z)))
    # long columns (a field of a whole FE model): every row of a column of 2^16 - 1 ... 2^17 + 1 tensors is the value of that tensor alone
    import itertools
    base = [list(p) + [0.0, 0.0, 0.0] for l in ((3, 1, -2), (2, 2, -1), (5, 0, -5), (1, 1, 1), (0, 0, 0), (-4, -1, -3)) for p in set(itertools.permutations([float(x) for x in l]))]
    base += [[0.0, 0.0, 0.0, 2.0, 0.0, 0.0], [1.0, 1.0, 0.0, 0.0, -3.0, 0.0], [2.0, -1.0, 0.5, 0.25, 0.75, -1.5]]
    fns_long = ['mises', 'tresca', 'max_principal', 'min_principal', 'abs_max_principal', 'signed_mises_trace', 'signed_tresca_trace', 'signed_mises_abs_max_principal', 'signed_tresca_abs_max_principal']
    with warnings.catch_warnings():
        warnings.simplefilter('ignore')
        b = np.array(base, dtype=np.float64)
        short = {fn: np.asarray(getattr(EQ, fn)(*[b[:, j] for j in range(6)]), dtype=np.float64) for fn in fns_long}
        for fn in fns_long:      # the short column against the single tensor
            for i in range(len(base)):
                chk.evals(1)
                one = float(getattr(EQ, fn)(*base[i]))
                if not close(short[fn][i], one, 1e-12, 1e-12):
                    chk.violation('%s of a tensor inside a column differs from the tensor evaluated alone' % fn, {'tensor': base[i], 'rows': len(base)}, one, float(short[fn][i]), part='long_column')
        for rows in (2 ** 16 - 1, 2 ** 16 + 1, 2 ** 17 + 1):
            reps = rows // len(base) + 1
            arr = np.tile(b, (reps, 1))[:rows]
            df = pd.DataFrame(arr, columns=COLS, index=pd.Index(np.arange(rows) * 3 + 5, name='element_id'))
            for fn in fns_long:
                chk.evals(1)
                try:
                    plain = np.asarray(getattr(EQ, fn)(*[arr[:, j] for j in range(6)]), dtype=np.float64)
                    acc = getattr(df.equistress, fn)()
                except Exception as ex:
                    chk.violation('%s raised %r on a column of %d tensors' % (fn, ex, rows), {'rows': rows}, part='long_column')
                    continue
                want = np.tile(short[fn], reps)[:rows]
                if len(plain) != rows or len(acc) != rows or not acc.index.equals(df.index):
                    chk.violation('%s of a column of %d tensors comes back with another length / index than the column' % (fn, rows), {'rows': rows, 'via': 'function' if len(plain) != rows else 'accessor'},
                                  rows, [len(plain), len(acc)], part='long_column')
                    continue
                bad = np.nonzero(~np.isclose(plain, want, rtol=1e-12, atol=1e-12))[0]
                bad_a = np.nonzero(~np.isclose(acc.to_numpy(), want, rtol=1e-12, atol=1e-12))[0]
                if len(bad) or len(bad_a) or len(acc) != rows or not acc.index.equals(df.index):
                    r = int(bad[0]) if len(bad) else (int(bad_a[0]) if len(bad_a) else -1)
                    chk.violation('%s of row %d of a column of %d tensors differs from the same tensor in a short column' % (fn, r, rows),
                                  {'rows': rows, 'row': r, 'tensor': arr[r].tolist() if r >= 0 else None, 'via': 'function' if len(bad) else 'accessor'},
                                  float(want[r]) if r >= 0 else None, float(plain[r]) if len(bad) else (float(acc.iloc[r]) if r >= 0 else None), part='long_column')
                else:
                    chk.nontrivial(('long_column', fn, rows))
    chk.cov['rule'] = ('TLC enumerates principal values in -L..L^3 (uniaxial, pure shear, hydrostatic, repeated, zero included) x integer quaternions with |q|^2 <= 15 (cube rotations, 45/120 degree '
                       'rotations, generic ones) and proves rotation invariance of the component formulas; the float image of every rotated tensor is evaluated by all nine plain functions at scale '
                       '1, 1/2, 3 and 2^-40, as columns and through df.equistress; expected values come from the principal values, never from an eigen-solver. '
                       'Non-trivial = three distinct principal values and a non-trivial rotation.')
    chk.cov['rule'] += ' Also: scale factors 0.1 and 123.456 (not exactly representable), one column with rows at magnitudes 2^-40 / 2^20 / 1, tensor columns stored in another order plus a foreign column, integer-typed components, pure shear with +0.0 / -0.0 normal components, columns of 2^16 - 1, 2^16 + 1 and 2^17 + 1 tensors against the same tensors in a short column (functions and accessor).'
    chk.cov['exhaustive'] = True
    chk.assumptions += ['when a sign indicator is mathematically zero and the tensor is not exactly representable / not diagonal, either sign is accepted (floating-point noise decides)']


def replay(chk, path):
    print(open(path).read())
    return 0

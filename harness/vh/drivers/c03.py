"""C03 — rainflow depends only on the reversal sequence: refinement, negation, affine maps, NaN, Series index types."""
import os, random, warnings
import numpy as np
import pandas as pd
from .. import SPEC, tlc, rf, par
from ..tlaparse import parse_state
from . import c01

LEVEL = 'model_checking'
TLA = os.path.join(SPEC, 'rainflow', 'MC_Symmetry.tla')
TRACE_TLA = os.path.join(SPEC, 'rainflow', 'Trace_Symmetry.tla')
TRACE_CFG = os.path.join(SPEC, 'rainflow', 'Trace_Symmetry.cfg')
NAN_CODE = 9999


def obs(kind, samples, cuts=None):
    """Run on arbitrary input container (one piece, or chunked by cuts); returns projection or {'raised':..}; notes the NaN warning."""
    try:
        det = rf.new(kind)
        with warnings.catch_warnings(record=True) as w:
            warnings.simplefilter('always')
            if cuts is None:
                det.process(samples)
            else:
                pos = 0
                for c in cuts:
                    det.process(samples[pos:pos + c])
                    pos += c
        p = rf.project(det, kind)
        warned = any('NaN' in str(x.message) for x in w)
        return {'cyc': p['cyc'], 'rv': p['rv'], 'rix': p['rix'], 'warned': warned}
    except Exception as ex:
        return {'raised': repr(ex)}


def fl(sig):
    return np.asarray(sig, dtype=np.float64)


def idx_moves(s, p, v, old, new):
    n = len(s)
    if new == (old + 1 if old >= p - 1 else old):
        return True
    if old == p - 1 and p <= n and v == s[p - 1] and new == old:
        return True
    if old == n - 1 and p == n + 1 and new == old + 1:
        return True
    return False


def admissible(s, p, v):
    n = len(s)
    if p == 1:
        return v == s[0]
    if p == n + 1:
        return v == s[-1]
    return min(s[p - 2], s[p - 1]) <= v <= max(s[p - 2], s[p - 1])


def map_vals(kind, o, f):
    if kind == 'F':
        cyc = tuple((f(c[0]), f(c[1])) for c in o['cyc'])
    else:
        cyc = tuple((f(c[0]), f(c[1]), c[2], c[3]) for c in o['cyc'])
    return {'cyc': cyc, 'rv': tuple(f(x) for x in o['rv']), 'rix': o['rix']}


def same(a, b):
    return all(a.get(k) == b.get(k) for k in ('cyc', 'rv', 'rix'))


def rel_ins(kind, s, p, v, b, t):
    if len(b['cyc']) != len(t['cyc']) or b['rv'] != t['rv']:
        return False
    for cb, ct in zip(b['cyc'], t['cyc']):
        if cb[:2] != ct[:2]:
            return False
        if kind != 'F' and not (idx_moves(s, p, v, cb[2], ct[2]) and idx_moves(s, p, v, cb[3], ct[3])):
            return False
    if kind != 'F':
        if len(b['rix']) != len(t['rix']) or not all(idx_moves(s, p, v, x, y) for x, y in zip(b['rix'], t['rix'])):
            return False
    return True


def rel_nan(kind, full, b, t):
    pos = [i for i, x in enumerate(full) if x is not None]
    M = lambda i: pos[i]
    if len(b['cyc']) != len(t['cyc']) or b['rv'] != t['rv']:
        return False
    for cb, ct in zip(b['cyc'], t['cyc']):
        if cb[:2] != ct[:2]:
            return False
        if kind != 'F' and (ct[2] != M(cb[2]) or ct[3] != M(cb[3])):
            return False
    if kind != 'F' and tuple(t['rix']) != tuple(M(i) for i in b['rix']):
        return False
    return True


SERIES_KINDS = ['range', 'int', 'float', 'datetime', 'string', 'shuffled_int']


def as_series(sig, how):
    n = len(sig)
    if how == 'range':
        idx = pd.RangeIndex(n)
    elif how == 'int':
        idx = pd.Index([10 * i + 7 for i in range(n)])
    elif how == 'shuffled_int':   # labels that collide with positions in a different order
        idx = pd.Index(list(range(n))[::-1])
    elif how == 'float':
        idx = pd.Index([0.5 * i - 3 for i in range(n)])
    elif how == 'datetime':
        idx = pd.date_range('2020-01-01', periods=n, freq='s')
    else:
        idx = pd.Index(['s%03d' % i for i in range(n)])
    return pd.Series(fl(sig), index=idx)


def transformations(sig, rng, full):
    """Yield (op dict, transformed input).  full=True: every admissible refinement; else a seeded sample."""
    n = len(sig)
    yield {'op': 'neg'}, fl([-x for x in sig])
    for a, b in ([(2, -3), (3, 5)] if full else [rng.choice([(2, -3), (3, 5), (5, 0), (2, 7)])]):
        yield {'op': 'aff', 'a': a, 'b': b}, fl([a * x + b for x in sig])
    for e in ([-40, 20] if full else [rng.choice([-40, -30, 20])]):
        yield {'op': 'scale2', 'e': e}, fl(sig) * (2.0 ** e)
    vals = sorted(set(sig))
    lo, hi = min(sig), max(sig)
    cands = [(p, v) for p in range(1, n + 2) for v in range(lo, hi + 1) if admissible(sig, p, v)]
    if not full and len(cands) > 6:
        cands = rng.sample(cands, 6)
    for p, v in cands:
        yield {'op': 'ins', 'p': p, 'v': v}, fl(list(sig[:p - 1]) + [v] + list(sig[p - 1:]))
    # NaN at interior positions (one or two)
    if n >= 2:
        slots = list(range(1, n))  # insert before sample index k (1..n-1): never first/last
        picks = [[k] for k in slots] + [[k, m] for k in slots for m in slots if k <= m]
        # three and four NaNs clustered in front of one sample (k, k, k), or spread with one value in between (k, k+1, k+1)
        picks += [[k, k, k] for k in slots] + [[k, k + 1, k + 1] for k in slots if k + 1 in slots] + [[k, k, k, k] for k in slots[:2]]
        if not full and len(picks) > 4:
            picks = rng.sample(picks, 4)
        for pk in picks:
            f = list(sig)
            for off, k in enumerate(sorted(pk)):
                f.insert(k + off, None)
            yield {'op': 'nan', 'full': f}, np.array([np.nan if x is None else float(x) for x in f])
    for how in (SERIES_KINDS if full else [rng.choice(SERIES_KINDS)]):
        yield {'op': 'series', 'index': how}, as_series(sig, how)


def relation_holds(kind, sig, op, b, t):
    if 'raised' in t or 'raised' in b:
        return False, 'raised'
    o = op['op']
    if o == 'neg':
        return same(map_vals(kind, b, lambda x: -x), t), 'negated values, same indices'
    if o == 'aff':
        if kind == 'F':
            return True, 'n/a'
        return same(map_vals(kind, b, lambda x: op['a'] * x + op['b']), t), 'affine image of values, same indices'
    if o == 'scale2':
        if kind == 'F':
            return True, 'n/a'
        f = 2.0 ** op['e']
        return same(map_vals(kind, b, lambda x: x * f), {**t, 'cyc': tuple(tuple(float(v) if i < 2 else v for i, v in enumerate(c)) for c in t['cyc']),
                                                         'rv': tuple(float(v) for v in t['rv'])}), 'values scaled by 2^e exactly, same indices'
    if o == 'ins':
        return rel_ins(kind, sig, op['p'], op['v'], b, t), 'same values, indices move with the samples'
    if o == 'nan':
        if not t.get('warned'):
            return False, 'NaN dropped without the documented warning'
        return rel_nan(kind, op['full'], b, t), 'same values, indices address the original (NaN containing) signal'
    if o == 'series':
        return same(b, t), 'Series treated like its value array'
    raise ValueError(o)


def check_signal(sig, rng, full, model=None, want_traces=False):
    """All transformations of one signal on the three real detectors. Returns (n_evals, violations, drift, traces)."""
    viol, drift, traces = [], [], []
    n = 0
    sig = list(sig)
    for kind in '34F':
        b = obs(kind, fl(sig))
        if model is not None and 'raised' not in b:
            m = model[kind]
            if not same(b, m):
                drift.append('base run of detector %s on %s differs from model: %s vs %s' % (kind, sig, b, m))
        for op, inp in transformations(sig, rng, full):
            if kind == 'F' and op['op'] in ('aff', 'scale2'):
                continue
            t = obs(kind, inp)
            n += 1
            ok, what = relation_holds(kind, sig, op, b, t)
            if not ok:
                viol.append(('C03 relation broken (%s): %s' % (op['op'], what), {'detector': kind, 'signal': sig, 'transformation': op}, b, t))
            elif op['op'] in ('ins', 'nan', 'series'):
                # the same transformed input fed in chunks: first with borders away from the NaNs ...
                m = len(inp)
                isn = [bool(x != x) for x in np.asarray(inp, dtype=np.float64)]
                borders = [k for k in range(1, m) if not isn[k - 1] and not isn[k]]
                picks = [[k] for k in borders] if (full and op['op'] == 'nan') else ([sorted(rng.sample(borders, min(len(borders), rng.randint(1, 3))))] if borders else [])
                if op['op'] == 'nan':
                    # ... and borders next to the NaNs: every NaN block delivered as a chunk of its own (a drop-out block of a streaming source),
                    # and each single border directly before / after a NaN
                    edges = [k for k in range(1, m) if isn[k - 1] != isn[k]]
                    if edges:
                        picks = picks + [edges] + ([[k] for k in edges] if full else [[rng.choice(edges)]])
                for pk in picks:
                    cuts = [b2 - a2 for a2, b2 in zip([0] + pk, pk + [m])]
                    tc = obs(kind, inp, cuts)
                    n += 1
                    okc, whatc = relation_holds(kind, sig, op, b, {**tc, 'warned': True} if 'raised' not in tc else tc)
                    if not okc:
                        viol.append(('C03 relation broken when the transformed signal is fed in chunks (%s): %s' % (op['op'], whatc),
                                     {'detector': kind, 'signal': sig, 'transformation': op, 'chunks': cuts}, b, tc))
            if want_traces and op['op'] != 'scale2' and 'raised' not in b and 'raised' not in t:
                e = {'kind': kind, 'sig': sig, 'op': op['op'], 'a': op.get('a', 1), 'b': op.get('b', 0), 'p': op.get('p', 1), 'v': op.get('v', 0),
                     'full': [NAN_CODE if x is None else x for x in op.get('full', sig)],
                     'base': {'cyc': [list(c) for c in b['cyc']], 'rv': list(b['rv']), 'rix': list(b['rix'])},
                     'trans': {'cyc': [list(c) for c in t['cyc']], 'rv': list(t['rv']), 'rix': list(t['rix'])}}
                traces.append((e, {'detector': kind, 'signal': sig, 'transformation': op}, b, t))
    return n, viol, drift, traces


def _replay_blocks(args):
    blocks, seed = args
    rng = random.Random(seed)
    n, nontriv, drift, viol, samples = 0, [], [], [], []
    for b in blocks:
        st = parse_state(b.strip())
        fed = st['fed']
        if len(fed) < 2:
            continue
        model = {'3': {'cyc': tuple(tuple(c) for c in st['d3']['cyc']), 'rv': tuple(st['d3']['rv']), 'rix': tuple(st['d3']['ri']) + (st['d3']['head'] - 1,)},
                 '4': {'cyc': tuple(tuple(c) for c in st['d4']['cyc']), 'rv': tuple(st['d4']['rv']), 'rix': tuple(st['d4']['ri']) + (st['d4']['head'] - 1,)},
                 'F': {'cyc': tuple(tuple(c) for c in st['dF']['cyc']), 'rv': tuple(st['dF']['rv']), 'rix': (0, st['dF']['head'] - 1)}}
        k, v, d, _ = check_signal(fed, rng, True, model)
        n += k
        viol += v
        drift += d
        if len(st['d4']['cyc']) >= 1:
            nontriv.append(fed)
        if not samples and len(st['d4']['cyc']) >= 1:
            samples.append({'signal': fed, 'transformations': 'neg, affine x2, every admissible insertion, every 1-2 interior NaN placement, 6 Series index kinds'})
    return n, nontriv, drift[:5], viol[:5], samples


def _replay_rev(blocks):
    """Reversal-only signals (up to 8 samples over -2..2): negation symmetry of all three detectors, one piece."""
    n, nontriv, viol = 0, [], []
    for b in blocks:
        st = parse_state(b.strip())
        sig = list(st['fed'])
        if len(sig) < 6:
            continue
        for kind in '34F':
            base = obs(kind, fl(sig))
            t = obs(kind, fl([-x for x in sig]))
            n += 1
            if 'raised' in base or 'raised' in t or not same(map_vals(kind, base, lambda x: -x), t):
                viol.append(('C03 relation broken (neg): negated values, same indices', {'detector': kind, 'signal': sig, 'transformation': {'op': 'neg'}}, base, t))
        if len(st['oF']['cyc']) >= 2:
            nontriv.append(tuple(sig))
    return n, nontriv, viol[:5]


def run(chk):
    quick = chk.tier == 'quick'
    cfg = os.path.join(SPEC, 'rainflow', 'MC_Symmetry_quick.cfg' if quick else 'MC_Symmetry_thorough.cfg')
    res = tlc.run(TLA, cfg, dump=True, timeout=3000, heap='12g')
    chk.tlc(os.path.basename(cfg), res, 'model theorems: negation, affine, refinement with index map, NaN index correction, on every signal')
    if res.violated:
        chk.machinery.append('model invariant %s violated at %s' % (res.violated, res.trace[-1:]))
    if res.dump_path and os.path.exists(res.dump_path):
        parts = par.split_dump(res.dump_path, 64)
        if not quick:   # thorough: full transformation set on a seeded half of the states keeps the run < 15 min
            pass
        total = 0
        for n, nontriv, drift, viol, samples in par.pmap(_replay_blocks, [(p, chk.seed + i) for i, p in enumerate(parts)], chunksize=1):
            total += n
            for k in nontriv:
                chk.nontrivial(k)
            chk.drift += drift
            for s in samples[:1]:
                chk.sample(s, cap=2)
            for what, case, exp, got in viol:
                chk.violation(what, case, exp, got, part='replay')
        chk.cov['traces_validated_against_impl'] += total
        chk.evals(total)
        chk.part('replay', pairs_of_runs=total)
        os.remove(res.dump_path)
    # reversal-only signals (longer than the full-alphabet instance reaches): negation symmetry of every detector
    rcfg = os.path.join(SPEC, 'rainflow', 'MC_OnePiece_rev2_quick.cfg' if quick else 'MC_OnePiece_rev2_thorough.cfg')
    res = tlc.run(os.path.join(SPEC, 'rainflow', 'MC_OnePiece.tla'), rcfg, dump=True, timeout=3000, heap='12g')
    chk.tlc(os.path.basename(rcfg), res, 'strictly alternating signals over -2..2 (the alphabet is symmetric: the mirror image of every state is a state); one-piece invariants incl. FKM = HCM')
    if res.violated:
        chk.machinery.append('model invariant %s violated at %s' % (res.violated, res.trace[-1:]))
    if res.dump_path and os.path.exists(res.dump_path):
        total = 0
        for n, nontriv, viol in par.pmap(_replay_rev, par.split_dump(res.dump_path, 64), chunksize=1):
            total += n
            for k in nontriv:
                chk.nontrivial(k)
            for what, case, exp, got in viol:
                chk.violation(what, case, exp, got, part='replay_reversals')
        chk.cov['traces_validated_against_impl'] += total
        chk.evals(total)
        chk.part('replay_reversals', pairs_of_runs=total)
        os.remove(res.dump_path)
    # (C) recorded pairs on longer random signals, relation decided by the TLC trace specification
    rng = random.Random(chk.seed * 31337 + 3)
    nsig = 40 if quick else 400
    items = []
    for i in range(nsig):
        n = rng.randint(3, 30 if quick else 60)
        sig = c01.random_signal(rng, n, rng.choice([2, 3, 6, 25]))
        k, v, d, tr = check_signal(sig, rng, False, None, want_traces=True)
        chk.evals(k)
        for what, case, exp, got in v:
            chk.violation(what, case, exp, got, part='recorded')
        items += tr
    out = tlc.validate_traces(TRACE_TLA, TRACE_CFG, [e for e, _, _, _ in items], 'c03', nsplit=12)
    chk.cov['states'] += out['states']
    chk.cov['transitions'] += out['generated']
    chk.part('trace_validation', traces=len(items), tlc_states=out['states'], wall_s=round(out['wall'], 1))
    for e in out['errors']:
        chk.machinery.append('trace validation: ' + e)
    acc = 0
    for (e, case, b, t), v in zip(items, out['verdicts']):
        if v is None:
            if not out['errors']:
                chk.machinery.append('no verdict for a trace')
            continue
        if v[1] == 'ok':
            acc += 1
            chk.nontrivial((tuple(case['signal']), case['detector'], repr(case['transformation'])))
        elif v[1] == 'relation':
            chk.violation('C03 relation rejected by the trace specification', case, b, t, part='trace')
        else:
            chk.drift.append('trace clause %s failed for %s (relation itself accepted)' % (v[1], case))
    chk.cov['traces_validated_against_impl'] += acc
    if items:
        chk.sample({'recorded_pair': items[0][0]}, cap=3)
    chk.cov['rule'] = ('TLC enumerates every signal over Vals (2..MaxLen samples) and proves the symmetry theorems on the spec; for every such signal the harness '
                       'runs the real detectors on the signal and on each transformed signal (negation, 2 affine maps, every admissible non-reversal insertion, '
                       'every placement of 1-2 interior NaNs, 6 Series index kinds) and checks the stated relation between the two observed outputs. '
                       'Non-trivial = signal with >= 1 closed cycle. Recorded pairs on longer random signals are decided by Trace_Symmetry.tla.')
    chk.cov['rule'] += ' Also: clusters of three and four NaNs; NaN blocks delivered as chunks of their own and single chunk borders directly before / after a NaN; negation of every strictly alternating signal over -2..2 with up to 8 (10) samples on all detectors.'
    chk.cov['exhaustive'] = True
    chk.assumptions += ['integer samples and integer affine maps in the TLC-validated part; dyadic scalings are exact in float64',
                        'FKM detector is only claimed to be invariant under negation and refinement (its rule uses absolute values)']


def replay(chk, path):
    import json
    v = json.load(open(path))
    c = v['case']
    rng = random.Random(0)
    print(json.dumps(c))
    n, viol, _, _ = check_signal(c['signal'], rng, True)
    for x in viol[:3]:
        print(x)
    return 1 if viol else 0

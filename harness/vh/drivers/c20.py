"""C20 — VMAP export followed by import returns the same mesh and fields; failed calls leave no trace."""
import os, shutil, warnings, tempfile
import numpy as np
import pandas as pd
from .. import SPEC, WORK, tlc, par, findings
from ..tlaparse import parse_state

LEVEL = 'model_checking'
TLA = os.path.join(SPEC, 'vmap', 'Vmap.tla')
ROWS = {
    'tri2d': [(1, 1), (1, 2), (1, 3), (2, 2), (2, 3), (2, 4)],
    'quad2d': [(7, 4), (7, 3), (7, 2), (7, 1)],
    'tet': [(30, 9), (30, 7), (30, 5), (30, 3), (10, 7), (10, 5), (10, 3), (10, 1)],
    'tetmix': [(1, 1), (2, 2), (1, 2), (2, 3), (1, 3), (2, 4), (1, 4), (2, 5)],
    'mixed': [(1, 1), (1, 2), (1, 3), (1, 4), (2, 1), (2, 2), (2, 3), (2, 5), (2, 6), (2, 7)],
    'mix3': [(1, 1), (1, 2), (1, 3), (1, 4), (1, 5), (1, 6), (2, 1), (2, 2), (2, 3), (2, 7), (3, 1), (3, 2), (3, 3), (3, 4), (3, 5), (3, 6), (3, 8), (3, 9)],
    'thin10': [(5, n) for n in range(1, 11)],
    'bad5': [(1, 1), (1, 2), (1, 3), (1, 4), (1, 5)],
    'tri2dxy': [(3, 11), (3, 12), (3, 13), (4, 12), (4, 13), (4, 14)],      # frame without a z column
    'tetzyx': [(8, 21), (8, 22), (8, 23), (8, 24)],                          # frame with the coordinate columns stored as z, y, x between variable columns
    'bigid': [(3000000000, 1), (3000000000, 2), (3000000000, 3), (3000000000, 4)],     # model id 2000000001
}
Z3 = {'tri2dxy': False, 'tetzyx': True, 'mix3': True, 'thin10': True, 'bigid': True, 'tri2d': False, 'quad2d': False, 'tet': True, 'tetmix': True, 'mixed': True, 'bad5': True}
SCOLS = ['S11', 'S22', 'S33', 'S12', 'S13', 'S23']
DCOLS = ['dx', 'dy', 'dz']
LC2COLS = [c + '_lc2' for c in SCOLS]       # the stress of a second load case in the same frame, under other column names


def coord(k, n):
    if k == 'thin10':      # a genuinely 3-D (quadratic) element far from the origin with a z extent of a few micro-units
        return (float(n) + 0.125, float(n * n) - 0.5, 1000.0 + 0.0004 * n)
    return (float(n) + 0.125, float(n * n) - 0.5, (0.25 * n * n * n - n) if Z3[k] else 0.0)


def sval(k, r, c):      # arbitrary distinguishable doubles per (mesh, row, column)
    return 1000.0 * (r + 1) + c + 0.3 + len(k) * 1e-3


def sval2(k, r, c):
    return -500.0 * (r + 1) - 3 * c - 0.9


def dval(k, r, c):
    return -10.0 * (r + 1) - c - 0.7


def mesh_frame(k):
    rows = ROWS[k]
    idx = pd.MultiIndex.from_tuples(rows, names=['element_id', 'node_id'])
    d = {'x': [coord(k, n)[0] for _, n in rows], 'y': [coord(k, n)[1] for _, n in rows], 'z': [coord(k, n)[2] for _, n in rows]}
    for c, name in enumerate(SCOLS):
        d[name] = [sval(k, r, c) for r in range(len(rows))]
    for c, name in enumerate(DCOLS):
        d[name] = [dval(k, r, c) for r in range(len(rows))]
    for c, name in enumerate(LC2COLS):
        d[name] = [sval2(k, r, c) for r in range(len(rows))]
    df = pd.DataFrame(d, index=idx)
    if k == 'tri2dxy':
        df = df.drop(columns=['z'])
    elif k == 'tetzyx':
        rest = [c for c in df.columns if c not in ('x', 'y', 'z', 'S11', 'dx', 'S22')]
        df = df[['S11', 'z', 'dx', 'y', 'S22', 'x'] + rest]
    return df


def execute(hist, path):
    """Run a call history on a fresh VMAPExport file. Returns list of per-call outcomes ('ok' or exception class name)."""
    from pylife.vmap import VMAPExport
    ex = VMAPExport(path)
    outcomes = []
    for call in hist:
        try:
            if call[0] == 'add_geometry':
                ex.add_geometry(call[1], mesh_frame(call[2]))
            elif call[0] == 'add_set':
                _, g, kind, k, members, name = call
                (ex.add_node_set if kind == 0 else ex.add_element_set)(g, list(members), mesh_frame(k), name)
            else:
                _, st, g, v, k = call
                if v == 'TEMP':
                    from pylife.vmap.vmap_structures import VariableLocations
                    ex.add_variable(st, g, v, mesh_frame(k), column_names=['dx'], location=VariableLocations.NODE)
                elif v == 'STRESS_NOCOLS':       # the known variable from a frame that lacks its columns
                    ex.add_variable(st, g, 'STRESS_CAUCHY', mesh_frame(k).drop(columns=SCOLS))
                elif v == 'STRESS_LC2':          # the known variable written from explicitly named other columns
                    ex.add_variable(st, g, 'STRESS_CAUCHY', mesh_frame(k), column_names=LC2COLS)
                else:
                    ex.add_variable(st, g, v, mesh_frame(k))
            outcomes.append('ok')
        except Exception as e:
            outcomes.append(type(e).__name__)
    return outcomes


def project(path, geoms_expected):
    """What a reader sees in the file (through VMAPImport, plus raw counters)."""
    import h5py
    from pylife.vmap import VMAPImport
    imp = VMAPImport(path)
    out = {'geoms': {}, 'vars': {}}
    for g in sorted(imp.geometries()):
        frame = imp.make_mesh(g).to_frame()
        frame2 = imp.make_mesh(g).to_frame()
        nodes = imp.nodes(g)
        info = {'index': [tuple(int(x) for x in t) for t in frame.index], 'repeatable': frame.index.equals(frame2.index),
                'points': [int(n) for n in nodes.index], 'coords': nodes.to_numpy().tolist(),
                'nsets': {}, 'esets': {}}
        for s in imp.node_sets(g):
            sub = imp.make_mesh(g).filter_node_set(s).to_frame()
            info['nsets'][s] = sorted(set(int(n) for n in sub.index.get_level_values('node_id')))
            info.setdefault('nset_rows', {})[s] = [tuple(int(x) for x in t) for t in sub.index]
        for s in imp.element_sets(g):
            sub = imp.make_mesh(g).filter_element_set(s).to_frame()
            info['esets'][s] = sorted(set(int(n) for n in sub.index.get_level_values('element_id')))
            info.setdefault('eset_rows', {})[s] = [tuple(int(x) for x in t) for t in sub.index]
            for ns in imp.node_sets(g):      # both filters one after the other: the intersection, in mesh order
                try:
                    both = imp.make_mesh(g).filter_node_set(ns).filter_element_set(s).to_frame()
                    info.setdefault('chain_rows', {})[(ns, s)] = [tuple(int(x) for x in t) for t in both.index]
                except Exception as ex:
                    info.setdefault('chain_rows', {})[(ns, s)] = 'raised %s' % type(ex).__name__
        with h5py.File(path, 'r') as f:
            gg = f['/VMAP/GEOMETRY/%s' % g]
            info['counters'] = (int(gg['POINTS'].attrs['MYSIZE']), int(gg['ELEMENTS'].attrs['MYSIZE']), int(gg['GEOMETRYSETS'].attrs['MYSIZE']), len(gg['GEOMETRYSETS'].keys()))
        out['geoms'][g] = info
    for st in sorted(imp.states()):
        for g in sorted(imp.geometries()):
            try:
                names = imp.variables(g, st)
            except KeyError:
                continue
            for v in names:
                cols = SCOLS if v == 'STRESS_CAUCHY' else (['dx'] if v == 'TEMP' else DCOLS)
                fr = imp.make_mesh(g, st).join_variable(v, column_names=cols if v == 'TEMP' else None).to_frame()
                out['vars'][(st, g, v)] = {tuple(int(x) for x in key): [float(fr.loc[key, c]) if not isinstance(fr.loc[key, c], pd.Series) else float(fr.loc[key, c].iloc[0]) for c in cols] for key in fr.index}
    return out


def expected(st):
    exp = {'geoms': {}, 'vars': {}}
    for g, rec in st['geoms'].items():
        if rec['mesh'] == 'none':
            continue
        k = rec['mesh']
        idx = [(e, n) for e, conn in rec['elems'] for n in conn]
        nsets, esets, nset_count = {}, {}, 0
        for kind, name, members in st['sets'][g]:
            nset_count += 1
            (nsets if kind == 0 else esets)[name] = sorted(set(members))     # a later set with the same name replaces the earlier one in the reader's dict
        nrows = {name: [r for r in idx if r[1] in set(m)] for name, m in nsets.items()}
        erows = {name: [r for r in idx if r[0] in set(m)] for name, m in esets.items()}
        extra = {}
        if nrows:
            extra['nset_rows'] = nrows
        if erows:
            extra['eset_rows'] = erows
            if nrows:
                extra['chain_rows'] = {(a, b): [r for r in idx if r[1] in set(nsets[a]) and r[0] in set(esets[b])] for a in nsets for b in esets}
        exp['geoms'][g] = {**extra, 'index': idx, 'repeatable': True, 'points': list(rec['points']), 'coords': [list(coord(k, n))[:2 if k == 'tri2dxy' else 3] for n in rec['points']],
                           'nsets': nsets, 'esets': esets, 'counters': (len(rec['points']), len(rec['elems']), nset_count, nset_count)}
    for x in st['vars']:
        k = x['mesh']
        gidx = exp['geoms'][x['g']]['index']
        if x['v'] in ('STRESS_CAUCHY', 'STRESS_LC2'):
            fv = sval if x['v'] == 'STRESS_CAUCHY' else sval2
            m = {tuple(key): [fv(k, r - 1, c) for c in range(6)] for key, r in x['data']}
        else:
            per_node = {n: r for n, r in x['data']}
            m = {key: [dval(k, per_node[key[1]] - 1, c) for c in range(1 if x['v'] == 'TEMP' else 3)] for key in gidx if key[1] in per_node}
        exp['vars'][(x['st'], x['g'], 'STRESS_CAUCHY' if x['v'] == 'STRESS_LC2' else x['v'])] = m
    return exp


def _replay(args):
    blocks, wid, frac, seed = args
    import zlib
    n, nontriv, viol, samples = 0, [], [], []
    d = os.path.join(WORK, 'vmap', 'w%d_%d' % (wid, os.getpid()))
    os.makedirs(d, exist_ok=True)
    path = os.path.join(d, 'f.vmap')
    with warnings.catch_warnings():
        warnings.simplefilter('ignore')
        for b in blocks:
            st = parse_state(b.strip())
            hist = st['hist']
            if not hist:
                continue
            if frac < 100 and len(hist) >= 3 and (zlib.crc32(repr((hist, seed)).encode()) % 100) >= frac:
                continue         # quick tier: every history up to depth 2, a seeded sample of the deeper ones (TLC has checked them all)
            n += 1
            case = {'calls': [list(c) for c in hist]}
            try:
                if os.path.exists(path):
                    os.remove(path)
                outcomes = execute(hist, path)
                got = project(path, None)
            except Exception as ex:
                viol.append(('export / import raised outside an add_* call: %r' % ex, case, None, None))
                continue
            exp = expected(st)
            if (outcomes[-1] == 'ok') != st['lastOk']:
                viol.append(('the last call %s but the specification says it %s' % ('succeeded' if outcomes[-1] == 'ok' else 'raised ' + outcomes[-1], 'succeeds' if st['lastOk'] else 'fails'), case, st['lastOk'], outcomes))
                continue
            if set(got['geoms']) != set(exp['geoms']):
                viol.append(('set of geometries in the file differs (partial or missing geometry)', case, sorted(exp['geoms']), sorted(got['geoms'])))
                continue
            bad = False
            for g in exp['geoms']:
                for key in ('index', 'points', 'coords', 'nsets', 'esets', 'counters', 'repeatable', 'nset_rows', 'eset_rows', 'chain_rows'):
                    if got['geoms'][g].get(key) != exp['geoms'][g].get(key):
                        viol.append(('geometry %s read back differs in %s' % (g, key), case, exp['geoms'][g].get(key), got['geoms'][g].get(key)))
                        bad = True
                        break
            if bad:
                continue
            if set(got['vars']) != set(exp['vars']):
                viol.append(('set of variables in the file differs (partial or missing variable)', case, sorted(map(list, exp['vars'])), sorted(map(list, got['vars']))))
                continue
            for key, m in exp['vars'].items():
                if got['vars'][key] != m:
                    diff = next((k for k in m if got['vars'][key].get(k) != m[k]), None)
                    viol.append(('variable %s read back with other values than written' % (key,), case, {repr(diff): m.get(diff)}, {repr(diff): got['vars'][key].get(diff)}))
                    break
            if not st['lastOk'] or len(exp['vars']) > 0:
                nontriv.append(tuple(map(tuple, hist)))
            if not samples and len(hist) >= 3 and not st['lastOk']:
                samples.append({'call_history': [list(c) for c in hist], 'last_call_succeeds': st['lastOk'], 'geometries_in_file': sorted(exp['geoms'])})
    shutil.rmtree(d, ignore_errors=True)
    return n, nontriv, viol[:6], samples


def xy_only_probe(chk, fs):
    """2-D frames that carry only x and y columns (no z column at all)."""
    from pylife.vmap import VMAPExport, VMAPImport
    d = os.path.join(WORK, 'vmap', 'probe')
    os.makedirs(d, exist_ok=True)
    path = os.path.join(d, 'xy.vmap')
    mesh = mesh_frame('tri2d')[['x', 'y']]
    try:
        VMAPExport(path).add_geometry('P', mesh)
        nodes = VMAPImport(path).make_mesh('P').join_coordinates().to_frame()
        ok = np.allclose(nodes[['x', 'y']].to_numpy(), mesh[['x', 'y']].to_numpy())
        if not ok:
            chk.violation('x/y-only 2-D mesh read back with other coordinates', {}, part='xy')
    except Exception as ex:
        f = next((f for f in fs if f.get('match') == 'xy_only'), None)
        if f:
            chk.known.append('%s: %s' % (f['id'], f['symptom']))
        else:
            chk.violation('2-D mesh with only x and y columns cannot be exported and read back: %r' % ex, {'columns': ['x', 'y']}, part='xy')
    shutil.rmtree(d, ignore_errors=True)


def run(chk):
    quick = chk.tier == 'quick'
    cfgname = 'MC_Vmap_fixed.cfg' if quick else 'MC_Vmap_thorough.cfg'
    res = tlc.run(TLA, os.path.join(SPEC, 'vmap', cfgname), dump=True, timeout=3000, heap='12g')
    chk.tlc(cfgname, res, 'every history of add_geometry / add_*_set / add_variable calls incl. failing ones: RoundTripMesh, RoundTripVariables, NoPartial, ValidMeshAccepted')
    if res.violated:
        chk.machinery.append('model property %s violated: %s' % (res.violated, [s.get('hist') for s in res.trace[-1:]]))
    fs = findings.load('C20')
    if res.dump_path and os.path.exists(res.dump_path):
        parts = par.split_dump(res.dump_path, 64)
        tot = 0
        for n, nontriv, viol, samples in par.pmap(_replay, [(p, i, 25 if quick else 100, chk.seed) for i, p in enumerate(parts)], chunksize=1):
            tot += n
            for x in nontriv:
                chk.nontrivial(x)
            for s in samples[:1]:
                chk.sample(s, cap=3)
            for what, case, exp, got in viol:
                chk.violation(what, case, exp, got, part='replay')
        chk.evals(tot)
        chk.cov['traces_validated_against_impl'] += tot
        os.remove(res.dump_path)
    # histories that start from a file already holding two geometries (prefix), three more calls: failing calls next to other geometries' content
    twocfg = 'MC_Vmap_two.cfg' if quick else 'MC_Vmap_two_thorough.cfg'
    res = tlc.run(TLA, os.path.join(SPEC, 'vmap', twocfg), dump=True, timeout=3000, heap='12g')
    chk.tlc(twocfg, res, 'histories with the prefix add_geometry(A, tri2d); add_geometry(B, quad2d) and three more calls; a seeded sample is replayed')
    if res.violated:
        chk.machinery.append('model property %s violated: %s' % (res.violated, [s_.get('hist') for s_ in res.trace[-1:]]))
    if res.dump_path and os.path.exists(res.dump_path):
        tot = 0
        for n, nontriv, viol, samples in par.pmap(_replay, [(p, 100 + i, 12 if quick else 60, chk.seed) for i, p in enumerate(par.split_dump(res.dump_path, 64))], chunksize=1):
            tot += n
            for x in nontriv:
                chk.nontrivial(x)
            for what, case, exp, got in viol:
                chk.violation(what, case, exp, got, part='replay_two_geometries')
        chk.evals(tot)
        chk.cov['traces_validated_against_impl'] += tot
        chk.part('replay_two_geometries', histories=tot)
        os.remove(res.dump_path)
    # frame layouts: a 2-D frame without z column and a 3-D frame with its coordinate columns stored as z, y, x, after / before 3-D geometries and failed attempts
    res = tlc.run(TLA, os.path.join(SPEC, 'vmap', 'MC_Vmap_layout.cfg'), dump=True, timeout=3000, heap='12g')
    chk.tlc('MC_Vmap_layout.cfg', res, 'histories over the meshes tet, tri2dxy (no z column), tetzyx (columns z, y, x), bad5: the same properties; every history replayed')
    if res.violated:
        chk.machinery.append('model property %s violated: %s' % (res.violated, [s_.get('hist') for s_ in res.trace[-1:]]))
    if res.dump_path and os.path.exists(res.dump_path):
        tot = 0
        for n, nontriv, viol, samples in par.pmap(_replay, [(p, 200 + i, 15 if quick else 100, chk.seed) for i, p in enumerate(par.split_dump(res.dump_path, 64))], chunksize=1):
            tot += n
            for x in nontriv:
                chk.nontrivial(x)
            for what, case, exp, got in viol:
                chk.violation(what, case, exp, got, part='replay_layouts')
        chk.evals(tot)
        chk.cov['traces_validated_against_impl'] += tot
        chk.part('replay_layouts', histories=tot)
        os.remove(res.dump_path)
    # two exporters alive at once, writing two files, their calls in every merge order (Interleave.tla): each file reads back as when written alone
    ires = tlc.run(os.path.join(SPEC, 'common', 'Interleave.tla'), os.path.join(SPEC, 'common', 'MC_Interleave_33.cfg'), dump=True, timeout=300)
    chk.tlc('MC_Interleave_33.cfg', ires, 'merge orders of two call histories of three calls each; an object depends on its own calls only')
    if ires.dump_path and os.path.exists(ires.dump_path):
        from ..tlaparse import parse_dump
        from pylife.vmap import VMAPExport
        orders = [st['order'] for st in parse_dump(ires.dump_path) if st['ia'] == 3 and st['ib'] == 3]
        os.remove(ires.dump_path)
        d = os.path.join(WORK, 'vmap', 'interleaved')
        os.makedirs(d, exist_ok=True)
        HIST = {'A': [('add_geometry', 'A', 'tet'), ('add_set', 'A', 1, 'tet', (30,), 'ES'), ('add_variable', 'STATE-1', 'A', 'STRESS_CAUCHY', 'tet')],
                'B': [('add_geometry', 'B', 'tri2d'), ('add_geometry', 'C', 'mixed'), ('add_variable', 'STATE-2', 'C', 'DISPLACEMENT', 'mixed')]}

        def one_call(ex, call):
            if call[0] == 'add_geometry':
                ex.add_geometry(call[1], mesh_frame(call[2]))
            elif call[0] == 'add_set':
                _, g, kind, k, members, name = call
                (ex.add_node_set if kind == 0 else ex.add_element_set)(g, list(members), mesh_frame(k), name)
            else:
                _, st_, g, v, k = call
                ex.add_variable(st_, g, v, mesh_frame(k))
        nint = 0
        with warnings.catch_warnings():
            warnings.simplefilter('ignore')
            alone = {}
            try:
                for w in 'AB':
                    pth = os.path.join(d, 'alone_%s.vmap' % w)
                    if os.path.exists(pth):
                        os.remove(pth)
                    ex = VMAPExport(pth)
                    for call in HIST[w]:
                        one_call(ex, call)
                    alone[w] = project(pth, None)
                for order in orders:
                    nint += 1
                    paths = {w: os.path.join(d, 'il_%s.vmap' % w) for w in 'AB'}
                    for pth in paths.values():
                        if os.path.exists(pth):
                            os.remove(pth)
                    exs = {w: VMAPExport(paths[w]) for w in 'AB'}
                    k = {'A': 0, 'B': 0}
                    for w in order:
                        one_call(exs[w], HIST[w][k[w]])
                        k[w] += 1
                    for w in 'AB':
                        if project(paths[w], None) != alone[w]:
                            chk.violation('a file written by one of two exporters used alternately reads back differently from the same calls on an exporter used alone',
                                          {'calls': {x: [list(c) for c in HIST[x]] for x in 'AB'}, 'order': list(order), 'which': w}, None, None, part='interleaved')
                            break
                    else:
                        chk.nontrivial(('interleaved', order))
            except Exception as ex_:
                chk.violation('two exporters used alternately: raised %r' % ex_, {'calls': {x: [list(c) for c in HIST[x]] for x in 'AB'}}, part='interleaved')
        shutil.rmtree(d, ignore_errors=True)
        chk.evals(nint)
        chk.cov['traces_validated_against_impl'] += nint
        chk.part('interleaved', runs=nint, merge_orders=len(orders))
    xy_only_probe(chk, fs)
    chk.cov['rule'] = ('TLC explores every call history up to MaxDepth over 2 geometry names x 6 catalogue meshes (2-D tri/quad, tet4 with gapped descending ids, tet4 with interleaved rows, mixed tet4+wedge6, an '
                       'unsupported 5-node element), node/element sets (valid, reversed, not a subset), nodal / element-nodal / unknown variables in 2 states, including every failing call; each reachable '
                       'state (= one history) is executed on a fresh VMAPExport file and the file is projected through VMAPImport (+ raw MYSIZE counters) and compared with the specification state, '
                       'values being distinguishable doubles per (mesh, row, column). Non-trivial = history with a failing call or with a variable.')
    chk.cov['rule'] += ' Variable kinds incl. the known variable from a frame lacking its columns (write-step failure) and with explicit other column names; element sets in descending order, row order of filtered meshes, chained filters; prefix instance: two geometries already in the file plus three calls (seeded sample); layout instance: a 2-D frame without z column and a 3-D frame with columns z, y, x next to 3-D geometries and failed attempts; two exporters writing two files alternately in all 20 merge orders of 3 + 3 calls (Interleave.tla).'
    chk.cov['exhaustive'] = True
    chk.assumptions += ['ids within int32; 2-D meshes carry a constant z column (frames without a z column: see known findings)']


def replay(chk, path):
    print(open(path).read())
    return 0

"""C13 — signal broadcasting aligns operands without altering data or inputs."""
import os, warnings, random
import numpy as np
import pandas as pd
from .. import SPEC, tlc, par, findings
from ..tlaparse import parse_state

LEVEL = 'model_checking'
TLA = os.path.join(SPEC, 'broadcast', 'MC_Broadcast.tla')
VALMAP2 = {'x': {1: 1, 2: 0}, 'y': {1: 0, 2: 1}, 'z': {1: 'a', 2: 'b'}, 'w': {1: 1.5, 2: 2.5}, 'n1': {1: 'p', 2: 'q'}, 'n2': {1: 1, 2: 0}}
VALMAP = {'x': {1: 'a', 2: 'b'}, 'y': {1: 10, 2: 20}, 'z': {1: 0, 2: 1}, 'w': {1: 1.5, 2: 2.5}, 'n1': {1: 'p', 2: 'q'}, 'n2': {1: 0, 2: 1}}


def name_of(l):
    # unnamed levels -> None; level "z" carries the falsy but legal name '' and "w" the name False
    # (an INTEGER level name such as 0 already breaks the cross join on the unchanged tree: known finding C13-int-level-name, probed separately)
    return None if l.startswith('n') else {'z': '', 'w': 0}.get(l, l)      # 'z' carries the falsy name '', 'w' the INTEGER name 0


def make_index(levels, keys, vmap=None):
    vmap = vmap or VALMAP
    cols = [[vmap[l][k[i]] for k in keys] for i, l in enumerate(levels)]
    if len(levels) == 1:
        if vmap is VALMAP2 and cols[0] == list(range(len(cols[0]))):
            return pd.RangeIndex(len(cols[0]), name=name_of(levels[0]))      # a default index that was given a name
        return pd.Index(cols[0], name=name_of(levels[0]))
    return pd.MultiIndex.from_arrays(cols, names=[name_of(l) for l in levels])


def make_operand(a, base, kind, vmap=None):
    idx = make_index(a['levels'], a['keys'], vmap)
    vals = [float(base + i + 1) for i in range(len(a['keys']))]
    if kind == 'series':
        return pd.Series(vals, index=idx, name='val')
    return pd.DataFrame({'val': vals, 'twice': [2 * v for v in vals]}, index=idx)


def first_col(obj):
    return obj if isinstance(obj, pd.Series) else obj.iloc[:, 0]


def same_frame(a, b):
    if type(a) is not type(b):
        return False
    if isinstance(a, pd.Series):
        return a.equals(b) and a.index.equals(b.index) and list(a.index.names) == list(b.index.names) and a.name == b.name
    return a.equals(b) and a.index.equals(b.index) and list(a.index.names) == list(b.index.names) and list(a.columns) == list(b.columns)


def check_state(st, okind, pkind, fs, vmap=None):
    from pylife.core.broadcaster import Broadcaster
    vmap = vmap or VALMAP
    o, p, out = st['o'], st['p'], st['out']
    obj = make_operand(o, 100, okind, vmap)
    prm = make_operand(p, 1000, pkind, vmap)
    obj0, prm0 = obj.copy(deep=True), prm.copy(deep=True)
    total = list(o['levels']) + [l for l in p['levels'] if l not in o['levels']]
    case = {'object': {'kind': okind, 'levels': [name_of(l) for l in o['levels']], 'keys': [[vmap[l][k[i]] for i, l in enumerate(o['levels'])] for k in o['keys']]},
            'parameter': {'kind': pkind, 'levels': [name_of(l) for l in p['levels']], 'keys': [[vmap[l][k[i]] for i, l in enumerate(p['levels'])] for k in p['keys']]}}
    viol, known = [], []

    def report(what, exp=None, got=None):
        so, sp = set(o['levels']), set(p['levels'])
        for f in fs:
            m = f.get('match')
            if m == 'order2' and so == sp and len(o['levels']) == 2 and list(o['levels']) != list(p['levels']):
                known.append('%s: %s' % (f['id'], f['symptom'])); return
            if m == 'order3_keys' and so == sp and len(o['levels']) >= 3 and list(o['levels']) != list(p['levels']):
                ko = {frozenset(zip(o['levels'], k)) for k in o['keys']}
                kp = {frozenset(zip(p['levels'], k)) for k in p['keys']}
                if ko != kp:
                    known.append('%s: %s' % (f['id'], f['symptom'])); return
            if m == '2x2overlap' and len(o['levels']) == 2 and len(p['levels']) == 2 and len(so & sp) == 1:
                known.append('%s: %s' % (f['id'], f['symptom'])); return
        viol.append((what, case, exp, got))
    with warnings.catch_warnings():
        warnings.simplefilter('ignore')
        try:
            rp, ro = Broadcaster(obj).broadcast(prm)
        except Exception as ex:
            report('broadcast raised %r' % ex)
            rp = ro = None
    if not same_frame(obj, obj0) or not same_frame(prm, prm0):
        viol.append(('broadcast modified an operand (values, index or level names)', case, None,
                     {'object_names': list(obj.index.names), 'parameter_names': list(prm.index.names)}))
    if ro is None:
        return viol, known
    want_names = [name_of(l) for l in total]
    if not (ro.index.equals(rp.index) and list(ro.index.names) == list(rp.index.names)):
        report('the two returned objects do not have an identical index', None, {'object_index_names': list(ro.index.names), 'parameter_index_names': list(rp.index.names), 'rows': [len(ro), len(rp)]})
        return viol, known
    got_names = list(ro.index.names)
    if sorted(map(repr, got_names)) != sorted(map(repr, want_names)):
        report('the result index does not have the union of the operands\' levels', want_names, got_names)
        return viol, known
    # C13 does not prescribe the ORDER of the levels: keys are matched by level name (by position only for several unnamed levels)
    if len(set(map(repr, got_names))) == len(got_names):
        perm = [got_names.index(nm) for nm in want_names]
    else:
        perm = list(range(len(want_names)))
    want = {}
    for key, orow, prow in out:
        k = tuple(vmap[l][key[i]] for i, l in enumerate(total))
        want[k if len(k) > 1 else k[0]] = (100.0 + orow if orow else np.nan, 1000.0 + prow if prow else np.nan)
    got = {}
    oc, pc = first_col(ro), first_col(rp)
    for k, ov, pv in zip(ro.index, oc.to_numpy(), pc.to_numpy()):
        if isinstance(k, tuple):
            k = tuple(k[i] for i in perm)
        if k in got:
            report('a key occurs twice in the result', None, repr(k)); return viol, known
        got[k] = (float(ov), float(pv))

    def eqv(a, b):
        return all((np.isnan(x) and np.isnan(y)) or x == y for x, y in zip(a, b))
    if set(got) != set(want) or not all(eqv(got[k], want[k]) for k in want):
        report('a result row does not carry the value its original held for that key', {repr(k): v for k, v in want.items()}, {repr(k): v for k, v in got.items()})
    elif isinstance(ro, pd.DataFrame) and not np.array_equal(ro.iloc[:, 1].to_numpy(), 2 * ro.iloc[:, 0].to_numpy(), equal_nan=True):
        report('columns of a broadcast DataFrame went out of step')
    return viol, known


def _replay(args):
    blocks, fs, seed = args
    rng = random.Random(seed)
    n, nontriv, viol, known, samples = 0, [], [], set(), []
    for b in blocks:
        st = parse_state(b.strip())
        okind = rng.choice(['series', 'frame'])
        pkind = rng.choice(['series', 'frame'])
        v, k = check_state(st, okind, pkind, fs)
        n += 1
        viol += v
        known |= set(k)
        # the same configuration under a second key naming: integer keys that are a permutation of the positions 0..n-1, default (range) indexes
        v, k = check_state(st, okind, pkind, fs, VALMAP2)
        viol += v
        known |= set(k)
        so, sp = set(st['o']['levels']), set(st['p']['levels'])
        if so & sp and so != sp:
            nontriv.append((tuple(st['o']['levels']), tuple(st['p']['levels']), tuple(st['o']['keys']), tuple(st['p']['keys'])))
        if not samples and so & sp and so != sp and len(st['out']) >= 2:
            samples.append({'object': st['o'], 'parameter': st['p'], 'expected_rows_key_objrow_prmrow': sorted(st['out'])})
    return n, nontriv, viol[:5], sorted(known), samples


def other_paths(chk):
    """scalar / array parameters, the unnamed-index parameter-vector path, and downstream calculations."""
    from pylife.core.broadcaster import Broadcaster
    import pylife.materiallaws.woehlercurve  # noqa
    # a parameter whose index level is NAMED 0 (an integer, e.g. after set_index(0)) against an object indexed by 'x': cross join, values kept
    with warnings.catch_warnings():
        warnings.simplefilter('ignore')
        o = pd.DataFrame({'val': [101.0, 102.0]}, index=pd.Index(['a', 'b'], name='x'))
        p = pd.Series([1001.0, 1002.0, 1003.0], index=pd.Index([0, 1, 5], name=0), name='val')
        o0, p0 = o.copy(deep=True), p.copy(deep=True)
        chk.evals(1)
        try:
            rp, ro = Broadcaster(o).broadcast(p)
            ok = ro.index.equals(rp.index) and len(ro) == 6 and set(ro.index.names) == {'x', 0} \
                and all(ro.loc[k, 'val'] == o.loc[k[list(ro.index.names).index('x')], 'val'] and rp.loc[k] == p.loc[k[list(ro.index.names).index(0)]] for k in ro.index)
            if not ok or not (same_frame(o, o0) and same_frame(p, p0)):
                chk.violation('broadcast with an index level named 0 (integer): rows do not carry the values of their keys / operands modified', {'object_levels': ['x'], 'parameter_levels': [0]},
                              None, {'object_values': ro['val'].tolist(), 'parameter_values': rp.tolist()}, part='scalar')
            else:
                chk.nontrivial(('int-level-name',))
        except Exception as ex:
            chk.violation('broadcast with an index level named 0 raised %r' % ex, {}, part='scalar')
    # an object broadcast against ITSELF (the identical pandas object as parameter: `a.broadcast(a)`, e.g. a quantity combined with itself): both
    # results are the object, the operand keeps its index
    with warnings.catch_warnings():
        warnings.simplefilter('ignore')
        selfs = {'series_str_keys': pd.Series([1.5, 2.5, 3.5], index=pd.Index(['c', 'a', 'b'], name='x')),
                 'series_int_keys': pd.Series([1.5, 2.5, 3.5], index=pd.Index([30, 10, 20], name='node_id')),
                 'frame_two_levels': pd.DataFrame({'u': [1.0, 2.0, 3.0, 4.0]}, index=pd.MultiIndex.from_tuples([(2, 'b'), (1, 'b'), (2, 'a'), (1, 'a')], names=['element_id', 'part']))}
        for label, obj in selfs.items():
            chk.evals(1)
            o0 = obj.copy(deep=True)
            try:
                rp, ro = Broadcaster(obj).broadcast(obj)
                vals = lambda z: first_col(z).to_numpy() if hasattr(z, 'columns') else z.to_numpy()
                ok = ro.index.equals(rp.index) and len(ro) == len(o0) and set(ro.index) == set(o0.index) and list(ro.index.names) == list(o0.index.names) \
                    and all(float(first_col(ro).loc[k]) == float(first_col(o0).loc[k]) and float(first_col(rp).loc[k]) == float(first_col(o0).loc[k]) for k in o0.index)
                if not ok or not same_frame(obj, o0):
                    chk.violation('an object broadcast against itself: results do not carry the values of their keys / operand modified', {'object': label},
                                  {'index': [str(k) for k in o0.index]}, {'object_index': [str(k) for k in ro.index], 'parameter_index': [str(k) for k in rp.index], 'operand_index_after': [str(k) for k in obj.index]}, part='scalar')
                else:
                    chk.nontrivial(('self-broadcast', label))
            except Exception as ex:
                chk.violation('an object broadcast against itself raised %r' % ex, {'object': label}, part='scalar')
    with warnings.catch_warnings():
        warnings.simplefilter('ignore')
        for n in (1, 2, 3):
            idx = pd.Index(['a', 'b', 'c'][:n], name='x')
            for obj in (pd.Series([1.0, 2.0, 3.0][:n], index=idx), pd.DataFrame({'u': [1.0, 2.0, 3.0][:n], 'v': [4.0, 5.0, 6.0][:n]}, index=idx)):
                o0 = obj.copy(deep=True)
                chk.evals(1)
                try:
                    prm, ro = Broadcaster(obj).broadcast(5.0)
                    ok = same_frame(ro, o0) and np.all(np.asarray(prm) == 5.0)
                    if isinstance(obj, pd.DataFrame):
                        prm2, ro2 = Broadcaster(obj).broadcast(np.arange(n) + 7.0)
                        ok = ok and same_frame(ro2, o0) and list(prm2.index) == list(obj.index) and list(prm2) == list(np.arange(n) + 7.0)
                        try:
                            Broadcaster(obj).broadcast(np.arange(n + 1) + 7.0)
                            ok = ok and n == 0
                        except ValueError:
                            pass
                    if not ok or not same_frame(obj, o0):
                        chk.violation('scalar / array broadcast wrong or modified the object', {'rows': n, 'type': type(obj).__name__}, part='scalar')
                    else:
                        chk.nontrivial(('scalar', n, type(obj).__name__))
                except Exception as ex:
                    chk.violation('scalar / array broadcast raised %r' % ex, {'rows': n, 'type': type(obj).__name__}, part='scalar')
        # a Series signal (parameter vector) against array-likes of one, two and three values: a Series of that length and one row per value
        vec = pd.Series({'k_1': 7.0, 'SD': 300.0, 'ND': 1e6})
        vec0 = vec.copy(deep=True)
        for arr in ([7.0], np.array([7.0]), [1.0, 2.0], np.array([3.0, 4.0, 5.0])):
            chk.evals(1)
            try:
                prm, ro = Broadcaster(vec).broadcast(arr)
                m = len(arr)
                ok = isinstance(prm, pd.Series) and len(prm) == m and list(prm) == [float(x) for x in arr] and isinstance(ro, pd.DataFrame) and len(ro) == m \
                    and all((ro[c] == vec[c]).all() for c in vec.index) and same_frame(vec, vec0)
                if not ok:
                    chk.violation('a Series signal broadcast against an array-like of %d value(s) does not give a Series of that length and one row per value' % m, {'parameter': [float(x) for x in arr]},
                                  {'parameter_length': m, 'object_rows': m}, {'parameter': repr(prm)[:80], 'object_shape': getattr(ro, 'shape', None)}, part='scalar')
                else:
                    chk.nontrivial(('series-vs-array', m, type(arr).__name__))
            except Exception as ex:
                chk.violation('Series signal x array-like raised %r' % ex, {'parameter': [float(x) for x in arr]}, part='scalar')
        # unnamed single-level Series = parameter vector: one column per entry, one row per parameter key
        pv = pd.Series({'k_1': 7.0, 'SD': 300.0, 'ND': 1e6})
        pv0 = pv.copy(deep=True)
        for prm in (pd.Series([10.0, 20.0], index=pd.Index([3, 5], name='element_id')),
                    pd.Series([1.0, 2.0, 3.0], index=pd.MultiIndex.from_tuples([(1, 'u'), (1, 'v'), (2, 'u')], names=['element_id', 'scenario']))):
            chk.evals(1)
            p0 = prm.copy(deep=True)
            try:
                rp, ro = Broadcaster(pv).broadcast(prm)
                ok = ro.index.equals(prm.index) and list(ro.columns) == list(pv.index) and all((ro[c] == pv[c]).all() for c in pv.index) and same_frame(rp, p0)
                if not ok or not same_frame(pv, pv0) or not same_frame(prm, p0):
                    chk.violation('parameter-vector broadcast (unnamed index) wrong or modified an operand', {'parameter_index': list(prm.index.names)}, part='vector')
                else:
                    chk.nontrivial(('vector', prm.index.nlevels))
            except Exception as ex:
                chk.violation('parameter-vector broadcast raised %r' % ex, {}, part='vector')
        # downstream: allowable cycles of per-element curves for per-scenario loads = element-by-element scalar result
        curves = pd.DataFrame({'k_1': [3.0, 5.0, 4.0], 'SD': [100.0, 200.0, 150.0], 'ND': [1e6, 2e6, 5e5], 'TN': [4.0, 9.0, 1.0]}, index=pd.Index([11, 7, 42], name='element_id'))
        loads = pd.Series([120.0, 250.0, 90.0, 300.0], index=pd.Index(['s1', 's2', 's3', 's4'], name='scenario'))
        c0, l0 = curves.copy(deep=True), loads.copy(deep=True)
        try:
            got = curves.woehler.cycles(loads, 0.1)
            for eid, row in curves.iterrows():
                for sc, L in loads.items():
                    chk.evals(1)
                    want = float(row.woehler.cycles(L, 0.1))
                    g = float(got.loc[(eid, sc)])
                    if not (np.isclose(g, want, rtol=1e-12) or (np.isinf(g) and np.isinf(want))):
                        chk.violation('cycles of per-element curves for per-scenario loads differ from the scalar result', {'element': eid, 'scenario': sc}, want, g, part='downstream')
            if not (same_frame(curves, c0) and same_frame(loads, l0)):
                chk.violation('downstream calculation modified its operands', {}, part='downstream')
            chk.nontrivial(('downstream', 'woehler'))
            # a signal kept in a variable must not be changed by calculating with it
            wc = curves.iloc[0].woehler
            before = wc.to_pandas().copy(deep=True)
            fresh = float(curves.iloc[0].woehler.cycles(120.0))
            wc.cycles(120.0, 0.1)
            wc.load(1e5, 0.9)
            after = wc.to_pandas()
            chk.evals(1)
            if not (np.allclose(after.astype(float).to_numpy(), before.astype(float).to_numpy(), rtol=0, atol=0) and float(wc.cycles(120.0)) == fresh):
                chk.violation('a signal was modified by a calculation that broadcast a scalar against it', {'before': before.to_dict(), 'after': after.to_dict()}, part='downstream')
            # curves with DIFFERENT native failure probabilities, requested probability equal to one / none of them
            cv = pd.DataFrame({'k_1': [3.0, 7.5, 3.3], 'SD': [100.0, 200.0, 150.0], 'ND': [1e6, 2e6, 5e5], 'TN': [4.0, 9.0, 2.0], 'TS': [1.5, 2.0, 1.2],
                               'failure_probability': [0.5, 0.1, 0.025]}, index=pd.Index([11, 7, 42], name='element_id'))
            cv0 = cv.copy(deep=True)
            for pf in (0.5, 0.1, 0.3):
                got = cv.woehler.cycles(loads, pf)
                gotl = cv.woehler.load(pd.Series([1000.0, 1e5, 3e6], index=pd.Index(['a', 'b', 'c'], name='scenario')), pf)
                for eid, row in cv.iterrows():
                    for sc, L in loads.items():
                        chk.evals(1)
                        want = float(row.woehler.cycles(L, pf))
                        g = float(got.loc[(eid, sc)])
                        if not (np.isclose(g, want, rtol=1e-12) or (np.isinf(g) and np.isinf(want))):
                            chk.violation('cycles of per-element curves with different native failure probabilities differ from the scalar result', {'element': eid, 'scenario': sc, 'failure_probability': pf}, want, g, part='downstream')
                    for sc, N in (('a', 1000.0), ('b', 1e5), ('c', 3e6)):
                        chk.evals(1)
                        want = float(row.woehler.load(N, pf))
                        g = float(gotl.loc[(eid, sc)])
                        if not np.isclose(g, want, rtol=1e-12):
                            chk.violation('load of per-element curves with different native failure probabilities differs from the scalar result', {'element': eid, 'cycles': N, 'failure_probability': pf}, want, g, part='downstream')
            # integer cycle numbers (python int, numpy integer, integer Series): scalar result of a single curve = the element of the broadcast result
            Ns = pd.Series([1000, 10 ** 6, 4 * 10 ** 6], index=pd.Index(['a', 'b', 'c'], name='scenario'))
            gotl = cv.woehler.load(Ns)
            for eid, row in cv.iterrows():
                for sc, N in Ns.items():
                    for Nscalar in (int(N), np.int64(N), float(N)):
                        chk.evals(1)
                        g, want = float(row.woehler.load(Nscalar)), float(gotl.loc[(eid, sc)])
                        if not np.isclose(g, want, rtol=1e-12):
                            chk.violation('load for a scalar %s cycle number of a single curve differs from the broadcast per-element result' % type(Nscalar).__name__, {'element': eid, 'cycles': int(N)}, want, g, part='downstream')
            if not same_frame(cv, cv0):
                chk.violation('downstream calculation modified the curves', {}, part='downstream')
            chk.nontrivial(('downstream', 'woehler-pf'))
            # calculations built on the scalar path of the broadcast: the signal's own frame is handed back, so the calculation must not write into it
            import pylife.stress.collective  # noqa
            lc_df = pd.DataFrame({'from': [1.0, 2.0], 'to': [3.0, 5.0]}, index=pd.Index([4, 9], name='element_id'))
            lc0 = lc_df.copy(deep=True)
            for opname, operand in (('scale', 2.0), ('shift', 1.5), ('scale', pd.Series([2.0, 3.0], index=pd.Index([4, 9], name='element_id'))), ('shift', pd.Series([1.0, 2.0], index=pd.Index(['a', 'b'], name='scenario')))):
                chk.evals(1)
                res = getattr(lc_df.load_collective, opname)(operand)
                if not same_frame(lc_df, lc0):
                    chk.violation('LoadCollective.%s(%s) modified the collective it was called on' % (opname, 'scalar' if np.isscalar(operand) else 'Series'), {'operation': opname}, lc0.to_dict(), lc_df.to_dict(), part='downstream')
                    lc_df = lc0.copy(deep=True)
                want = (2.0 if np.isscalar(operand) else None)
                if np.isscalar(operand):
                    exp = lc0[['from', 'to']] * operand if opname == 'scale' else lc0[['from', 'to']] + operand
                    if not np.allclose(res.to_pandas()[['from', 'to']].to_numpy(), exp.to_numpy(), rtol=0, atol=0):
                        chk.violation('LoadCollective.%s(scalar) returns wrong from/to values' % opname, {}, exp.to_numpy().tolist(), res.to_pandas()[['from', 'to']].to_numpy().tolist(), part='downstream')
            chk.nontrivial(('downstream', 'collective-scale-shift-non-mutation'))
            # mean stress sensitivities per (element_id, material) (a two-level index) against collectives per cycle / per (element_id, cycle)
            import pylife.strength.meanstress as MST
            sens = pd.DataFrame({'M': [0.3, 0.5, 0.2, 0.4], 'M2': [0.1, 0.5, 0.0, 0.2]},
                                index=pd.MultiIndex.from_tuples([(1, 'st'), (1, 'al'), (2, 'st'), (2, 'al')], names=['element_id', 'material']))
            collA = pd.DataFrame({'range': [200.0, 300.0], 'mean': [50.0, -40.0]}, index=pd.Index([0, 1], name='cycle'))
            collB = pd.DataFrame({'range': [200.0, 300.0, 120.0, 80.0], 'mean': [50.0, -40.0, 10.0, 90.0]},
                                 index=pd.MultiIndex.from_tuples([(1, 0), (1, 1), (2, 0), (2, 1)], names=['element_id', 'cycle']))
            s0, a0, b0 = sens.copy(deep=True), collA.copy(deep=True), collB.copy(deep=True)
            for label, coll in (('per cycle', collA), ('per (element_id, cycle)', collB)):
                res = coll.meanstress_transform.fkm_goodman(sens, -1.0).amplitude
                want_rows = 8
                if set(res.index.names) != {'element_id', 'material', 'cycle'} or len(res) != want_rows:
                    chk.violation('mean stress transformation with sensitivities per (element_id, material) and a collective %s: result index is not (element_id, material, cycle) with one row per combination' % label,
                                  {'result_levels': [str(n) for n in res.index.names], 'rows': len(res)}, ['element_id', 'material', 'cycle', want_rows], None, part='downstream')
                    continue
                for key, amp_got in res.items():
                    k = dict(zip(res.index.names, key))
                    src = coll.loc[k['cycle']] if label == 'per cycle' else coll.loc[(k['element_id'], k['cycle'])]
                    ms = sens.loc[(k['element_id'], k['material'])]
                    chk.evals(1)
                    want = float(MST.fkm_goodman(np.array([src['range'] / 2.0]), np.array([src['mean']]), ms.M, ms.M2, -1.0)[0])
                    if not np.isclose(amp_got, want, rtol=1e-12):
                        chk.violation('mean stress transformation with per-(element, material) sensitivities: a row differs from the scalar function for its own key', {'key': {a: (int(b) if not isinstance(b, str) else b) for a, b in k.items()}, 'collective': label}, want, float(amp_got), part='downstream')
                        break
            if not (same_frame(sens, s0) and same_frame(collA, a0) and same_frame(collB, b0)):
                chk.violation('mean stress transformation modified its operands', {}, part='downstream')
            chk.nontrivial(('downstream', 'meanstress-multiindex-sensitivities'))
        except Exception as ex:
            chk.violation('downstream calculation raised %r' % ex, {}, part='downstream')


def run(chk):
    quick = chk.tier == 'quick'
    cfgname = 'MC_Broadcast_quick.cfg' if quick else 'MC_Broadcast_thorough.cfg'
    res = tlc.run(TLA, os.path.join(SPEC, 'broadcast', cfgname), dump=True, timeout=3000, heap='12g')
    chk.tlc(cfgname, res, 'join semantics of key tuples (D) for every level-name layout / key set in the domain; recode-restore identity of the index cache')
    if res.violated:
        chk.machinery.append('model invariant %s violated: %s' % (res.violated, res.trace[-1:]))
    fs = findings.load('C13')
    if res.dump_path and os.path.exists(res.dump_path):
        parts = par.split_dump(res.dump_path, 64)
        tot = 0
        for n, nontriv, viol, known, samples in par.pmap(_replay, [(c, fs, chk.seed * 100 + i) for i, c in enumerate(parts)], chunksize=1):
            tot += n
            for x in nontriv:
                chk.nontrivial(x)
            for s in samples[:1]:
                chk.sample(s, cap=3)
            for m in known:
                if m not in chk.known:
                    chk.known.append(m)
            for what, case, exp, got in viol:
                chk.violation(what, case, exp, got, part='replay')
        chk.evals(tot)
        chk.cov['traces_validated_against_impl'] += tot
        os.remove(res.dump_path)
    other_paths(chk)
    chk.cov['rule'] = ('TLC enumerates object level layouts {x, xy, yx, xyz, x+unnamed} x parameter level layouts {x, y, z, unnamed, xy, yx, yz, zx, zw, zyx} x all key sequences of 1..MaxRows unique keys over two '
                       'values per level (values chosen so that keys coincide with the integer codes of the recoding), restricted to the domain of C13, and computes the definition-level result '
                       '(key, object row, parameter row); every configuration is built as pandas Series/DataFrame operands (kind chosen by seed) and Broadcaster.broadcast is compared row by row, '
                       'operands are compared with deep copies; every configuration is built under two key namings (strings/tens/codes, and integer keys that permute the positions 0..n-1 with named default RangeIndexes). Non-trivial = partially shared level sets. Scalar/array/parameter-vector paths and a downstream woehler calculation are checked separately.')
    chk.cov['rule'] += ' Downstream: per-element Woehler curves with different native failure probabilities, integer cycle numbers, scale/shift of a collective must not modify it, mean stress transformation with sensitivities per (element_id, material); Series signal x array-likes of 1..3 values.'
    chk.cov['exhaustive'] = True
    chk.assumptions += ['row ORDER of the result is not prescribed by C13 and not compared; keys are unique within an operand',
                        'configurations outside the domain (shared-level key tuples differ) are not generated']


def replay(chk, path):
    print(open(path).read())
    return 0

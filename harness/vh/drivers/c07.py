"""C07 — binned notch law = wrapped law at the upper class edge."""
import os, random, warnings
import numpy as np
import pandas as pd
from .. import SPEC, tlc, hcm, findings
from ..tlaparse import parse_dump

LEVEL = 'model_checking'
TLA = os.path.join(SPEC, 'binned', 'MC_Binned.tla')
Q = 4


def laws():
    from pylife.materiallaws.notch_approximation_law import ExtendedNeuber
    from pylife.materiallaws.notch_approximation_law_seegerbeste import SeegerBeste
    return {
        'exact_asym': lambda: hcm.ExactLaw('asym'),
        'exact_cubic': lambda: hcm.ExactLaw('cubic'),
        'ExtendedNeuber': lambda: ExtendedNeuber(E=206e3, K=1184., n=0.187, K_p=3.5),
        'SeegerBeste': lambda: SeegerBeste(E=206e3, K=1184., n=0.187, K_p=3.5),
    }


def wrapped_at(law, branch, edge):
    """Wrapped law at one class edge, evaluated like the table builds it (vector of all edges is evaluated by the caller)."""
    raise NotImplementedError


def edge_values(law, branch, edges):
    """Wrapped law evaluated on the class edges (as a Series, the way Binned builds its table) -> (stress, strain) arrays."""
    e = pd.Series(np.asarray(edges, dtype=np.float64))
    if branch == 'primary':
        s = law.stress(e)
        return np.asarray(s, dtype=np.float64), np.asarray(law.strain(s, e), dtype=np.float64)
    s = law.stress_secondary_branch(e)
    return np.asarray(s, dtype=np.float64), np.asarray(law.strain_secondary_branch(s, e), dtype=np.float64)


def lookup(b, branch, load, disturb=None):
    """stress then strain look-up; `disturb` (an in-range load of another class) is looked up in between:
    the look-up must be a function of its arguments, not of the call history."""
    def failing(fn, like):
        # a look-up far above the initialised maximum (raises ValueError) between the two calls: the table object must come through it unchanged
        try:
            fn(like * 64.0 + (1e6 if np.isscalar(like) else 1e6))
        except ValueError:
            pass
    if branch == 'primary':
        s = b.stress(load)
        if disturb is not None:
            b.stress(disturb)
            failing(b.stress, load)
        return s, b.strain(s, load)
    s = b.stress_secondary_branch(load)
    if disturb is not None:
        b.stress_secondary_branch(disturb)
        failing(b.stress_secondary_branch, load)
    return s, b.strain_secondary_branch(s, load)


def close(a, b, rel):
    a, b = np.asarray(a, dtype=np.float64), np.asarray(b, dtype=np.float64)
    return a.shape == b.shape and bool(np.all(np.abs(a - b) <= rel * np.maximum(1e-300, np.abs(b))))


def run(chk):
    from pylife.materiallaws.notch_approximation_law import Binned
    quick = chk.tier == 'quick'
    cfg = os.path.join(SPEC, 'binned', 'MC_Binned_quick.cfg' if quick else 'MC_Binned_thorough.cfg')
    res = tlc.run(TLA, cfg, dump=True, timeout=1200)
    chk.tlc(os.path.basename(cfg), res, 'class choice as coded = least class with upper edge >= |load|; error iff above max; monotone; < 1 class')
    if res.violated:
        chk.machinery.append('model invariant %s violated: %s' % (res.violated, res.trace[-1:]))
    cases = list(parse_dump(res.dump_path)) if res.dump_path and os.path.exists(res.dump_path) else []
    fs = findings.load('C07')
    rng = random.Random(chk.seed + 7)
    maxima = [4.0, 0.7, 1000.0]
    lawset = laws()
    bycfg = {}
    for st in cases:
        bycfg.setdefault((st['n'], st['branch']), []).append(st)
    nrun = 0
    for (N, branch), sts in sorted(bycfg.items()):
        for lname, mk in lawset.items():
            for M in maxima:
                if lname.startswith('exact') and M != 4.0:
                    continue
                case0 = {'law': lname, 'max_load': M, 'bins': N, 'branch': branch}
                try:
                    with warnings.catch_warnings():
                        warnings.simplefilter('ignore')
                        b = Binned(mk(), M, N)
                except Exception as ex:
                    f = next((f for f in fs if f.get('match_bins') == N), None)
                    if f:
                        msg = '%s: %s' % (f['id'], f['symptom'])
                        if msg not in chk.known:
                            chk.known.append(msg)
                    else:
                        chk.violation('constructing Binned raised %r' % ex, case0, part='construct')
                    continue
                lut = b._lut_primary_branch if branch == 'primary' else b._lut_secondary_branch
                edges = np.asarray(lut.iloc[:, 0], dtype=np.float64)      # the table's own class edges (load / delta_load column)
                R = len(edges)
                w = M / N
                with warnings.catch_warnings():
                    warnings.simplefilter('ignore')
                    es, ee = edge_values(mk(), branch, edges)
                exact = lname.startswith('exact')
                if len(edges) != (N if branch == 'primary' else 2 * N) or not close(edges, [(k + 1) / N * M for k in range(R)], 1e-12):
                    chk.violation('class edges are not k * max_load / bins', case0, None, edges.tolist(), part='table')
                    continue
                # off the lattice: loads one ulp, 1e-9 and 4e-6 (relative) beyond the last class edge raise in every call shape, and so does the mirrored load
                top = float(edges[-1])
                for above in (float(np.nextafter(top, np.inf)), top * (1 + 1e-9), top * (1 + 4e-6)):
                    for sg in (1.0, -1.0):
                        for shape in ('scalar', 'series1', 'series3'):
                            nrun += 1
                            chk.evals(1)
                            arg = sg * above if shape == 'scalar' else pd.Series([sg * above]) if shape == 'series1' else pd.Series([0.5 * w, sg * above, -0.25 * w])
                            try:
                                with warnings.catch_warnings():
                                    warnings.simplefilter('ignore')
                                    s, e = lookup(b, branch, arg)
                                chk.violation('load just above the initialised maximum returned a value instead of raising',
                                              {**case0, 'load': sg * above, 'relative_excess': above / top - 1.0, 'shape': shape}, 'ValueError', np.asarray(s, dtype=np.float64).tolist(), part='lookup')
                            except ValueError:
                                chk.nontrivial((N, branch, 'above', above / top - 1.0, sg, shape, lname, M))
                            except Exception as ex:
                                chk.violation('look-up raised an unexpected %r' % ex, {**case0, 'load': sg * above, 'shape': shape}, 'ValueError', None, part='lookup')
                for st in sts:
                    j = st['j']
                    k_on = abs(j) // Q if abs(j) % Q == 0 and 1 <= abs(j) // Q <= R else None
                    a = edges[k_on - 1] if k_on else abs(j) / Q * w          # on-edge loads are the table's own edge values
                    v = float(np.sign(j)) * a
                    exp = st['out']
                    case = {**case0, 'load': v, 'lattice_j': j}
                    for shape in ('scalar', 'series1', 'series3'):
                        nrun += 1
                        chk.evals(1)
                        if shape == 'scalar':
                            arg = v
                        elif shape == 'series1':
                            arg = pd.Series([v])
                        else:
                            # a Series of several loads through ONE table: the lattice load plus two in-range companions
                            arg = pd.Series([v, 0.5 * w, -0.25 * w]) if exp[0] == 'ok' else pd.Series([0.5 * w, v, -0.25 * w])
                        try:
                            with warnings.catch_warnings():
                                warnings.simplefilter('ignore')
                                s, e = lookup(b, branch, arg, (0.3 * w if abs(j) > Q else (R - 0.4) * w) if j % 2 else None)
                            got = ('ok', np.atleast_1d(np.asarray(s, dtype=np.float64)), np.atleast_1d(np.asarray(e, dtype=np.float64)))
                        except ValueError as ex:
                            got = ('error', None, None)
                        except Exception as ex:
                            chk.violation('look-up raised an unexpected %r' % ex, {**case, 'shape': shape}, exp, None, part='lookup')
                            continue
                        if exp[0] == 'error':
                            if got[0] != 'error':
                                chk.violation('load above the initialised maximum returned a value instead of raising', {**case, 'shape': shape}, 'ValueError', [x.tolist() for x in got[1:]], part='lookup')
                            continue
                        if got[0] == 'error':
                            chk.violation('load within the initialised range raised', {**case, 'shape': shape}, exp, 'ValueError', part='lookup')
                            continue
                        sgn, cls = exp[1], exp[2]
                        pos = 0 if shape != 'series3' else 0
                        want_s, want_e = sgn * es[cls - 1], sgn * ee[cls - 1]
                        ok = (got[1][pos] == want_s and got[2][pos] == want_e) if exact else \
                             (close(got[1][pos], want_s, 1e-12) and close(got[2][pos], want_e, 1e-12))
                        if not ok:
                            chk.violation('look-up is not the wrapped law at the upper class edge (class %d) with the sign of the load' % cls,
                                          {**case, 'shape': shape}, [want_s, want_e], [got[1][pos], got[2][pos]], part='lookup')
                        elif shape == 'series3' and not (close(got[1][1], es[0], 1e-12) and close(got[1][2], -es[0], 1e-12)):
                            chk.violation('companion loads of a Series look-up got wrong values', {**case, 'shape': shape}, [es[0], -es[0]], got[1].tolist(), part='lookup')
                        if abs(j) > 0:
                            chk.nontrivial((N, branch, j, lname, M))
                # (no comparison with a separately solved evaluation: SeegerBeste's root differs by ~1e-4 between call vectors at small loads --
                #  solver accuracy is C06's subject, not C07's; see DESIGN 5 C07)
    # per-point tables: several points at once = each point alone; class from the first point; any node ids
    for lname in ('exact_asym', 'ExtendedNeuber'):
        for N in ([2, 3, 7] if quick else [2, 3, 4, 7, 16]):
            for ids, cs in (([11, 12, 13], [1.0, 2.0, 3.0]), ([14, 13, 12, 11], [2.0, 1.0, 0.5, 4.0]), ([204, 17, 1003, 5], [1.0, 1.0, 3.0, 2.0])):
                M0 = 4.0
                mx = pd.Series([c * M0 for c in cs], index=pd.Index(ids, name='node_id'))
                case0 = {'law': lname, 'bins': N, 'node_ids': ids, 'max_loads': mx.tolist()}
                try:
                    with warnings.catch_warnings():
                        warnings.simplefilter('ignore')
                        bm = Binned(lawset[lname](), mx.copy(), N)
                        alone = [Binned(lawset[lname](), float(m), N) for m in mx]
                except Exception as ex:
                    chk.violation('constructing per-point Binned raised %r' % ex, case0, part='multi')
                    continue
                # a second per-point table with other class edges is alive and in use at the same time (two components assessed side by side)
                with warnings.catch_warnings():
                    warnings.simplefilter('ignore')
                    decoy = Binned(lawset[lname](), pd.Series([0.37 * M0 * c for c in reversed(cs)], index=pd.Index(ids, name='node_id')), N + 3)
                decoy_load = pd.Series([0.11 * M0 * c for c in reversed(cs)], index=pd.Index(ids, name='node_id'))
                for branch, R in (('primary', N), ('secondary', 2 * N)):
                    for jj in range(-(R * Q + 2), R * Q + 3):
                        if jj % 5 == 0:
                            with warnings.catch_warnings():
                                warnings.simplefilter('ignore')
                                lookup(decoy, branch, decoy_load)
                        chk.evals(1)
                        loads = pd.Series([jj / Q * (c * M0 / N) for c in cs], index=pd.Index(ids, name='node_id'))
                        # mixed signs across nodes are legal inputs of a unit load case
                        if jj % 3 == 0:
                            loads = loads * np.array([1, -1, 1, -1][:len(cs)])
                        try:
                            with warnings.catch_warnings():
                                warnings.simplefilter('ignore')
                                other = pd.Series([(0.3 if abs(jj) > Q else R - 0.4) * (c * M0 / N) for c in cs], index=pd.Index(ids, name='node_id'))
                                s, e = lookup(bm, branch, loads, other if jj % 2 else None)
                            got = ('ok', np.asarray(s, dtype=np.float64), np.asarray(e, dtype=np.float64))
                        except ValueError:
                            got = ('error',)
                        except Exception as ex:
                            chk.violation('per-point look-up raised an unexpected %r' % ex, {**case0, 'branch': branch, 'loads': loads.tolist()}, part='multi')
                            continue
                        exp_s, exp_e, err = [], [], False
                        for p, bp in enumerate(alone):
                            try:
                                with warnings.catch_warnings():
                                    warnings.simplefilter('ignore')
                                    s1, e1 = lookup(bp, branch, float(loads.iloc[p]))
                                exp_s.append(float(s1)); exp_e.append(float(e1))
                            except ValueError:
                                err = True
                        if err:
                            if got[0] != 'error':
                                chk.violation('per-point look-up above the maximum returned a value', {**case0, 'branch': branch, 'loads': loads.tolist()}, 'ValueError', None, part='multi')
                            continue
                        rel = 0.0 if lname.startswith('exact') else 1e-7     # vectorised vs scalar Newton differ in the 8th digit
                        if got[0] == 'error' or not (close(got[1], exp_s, rel) and close(got[2], exp_e, rel)):
                            chk.violation('per-point tables give a point other values than the point gets alone', {**case0, 'branch': branch, 'loads': loads.tolist()},
                                          [exp_s, exp_e], [x.tolist() for x in got[1:]] if got[0] == 'ok' else 'ValueError', part='multi')
                        else:
                            chk.nontrivial(('multi', lname, N, tuple(ids), branch, jj))
    chk.cov['traces_validated_against_impl'] = nrun
    chk.part('lookup', lookups=nrun, model_states=len(cases))
    for st in cases[:2] + cases[len(cases) // 2:len(cases) // 2 + 1]:
        chk.sample({'bins': st['n'], 'branch': st['branch'], 'lattice_load_j_over_4_classes': st['j'], 'model_result': st['out']})
    chk.cov['rule'] = ('TLC enumerates (bins, branch, lattice load j) with loads on, between and beyond the class edges (Q=4 sub-steps per class, both signs, zero) and proves '
                       'coded class choice = definition; every state is looked up in real Binned objects wrapping 2 exact integer laws (exact equality) and ExtendedNeuber / SeegerBeste '
                       '(expected = wrapped law evaluated on the table edges; 1e-12) for 3 maxima, as scalar, 1-element Series and 3-element Series; per-point tables are compared '
                       'with each point alone for 3 node-id layouts incl. mixed signs, while a second per-point table with other class edges is alive and looked up in between; loads one ulp / 1e-9 / 4e-6 beyond the last edge must raise in every call shape. Non-trivial = non-zero load; distinct by (bins, branch, j, law, max).')
    chk.cov['exhaustive'] = True
    chk.assumptions += ['on-edge loads are taken from the table\'s own load column (edges as doubles); the wrapped real laws are evaluated on the edges the way the table is built',
                        'per-point look-up assumes proportional loads (class from the first point), as documented by pyLife']


def replay(chk, path):
    print(open(path).read())
    return 0

"""C02 — detectors realise the four-point definition, lose no turning point."""
import os, random
from collections import Counter
import numpy as np
from .. import SPEC, tlc, rf, par
from ..tlaparse import parse_state
from . import c01

LEVEL = 'model_checking'
TLA = os.path.join(SPEC, 'rainflow', 'MC_OnePiece.tla')


def turn_seq(sig):
    """D (python mirror of Rainflow!TurnSeq, used only for the index-partition check on observed output)."""
    n = len(sig)
    out = [0]
    for p in range(1, n - 1):
        if sig[p] == sig[p - 1]:
            continue
        q = p + 1
        while q < n and sig[q] == sig[p]:
            q += 1
        if q < n and (sig[p] - sig[p - 1]) * (sig[q] - sig[p]) < 0:
            out.append(p)
    out.append(n - 1)
    return out


def _scaled_obs(kind, fed, e):
    """Run on fed * 2^e (exact in binary floating point) and map the reported values back exactly."""
    f = 2.0 ** e
    g, _ = c01._code_obs(kind, [x * f for x in fed], (len(fed),))
    if 'raised' in g:
        return g
    back = lambda v: (lambda y: int(y) if y == int(y) else y)(float(v) / f)
    cyc = tuple((back(c[0]), back(c[1])) + tuple(c[2:]) for c in g['cyc'])
    return {**g, 'cyc': cyc, 'rv': tuple(back(v) for v in g['rv'])}


def check_against_definition(fed, def4, oF_model, o3_model=None, scale_exp=None):
    """Compare the real detectors (one piece) with D.  Returns (violations, drift).
    scale_exp: the same integer signal presented at magnitude 2^scale_exp (real-valued signals of any unit)."""
    viol, drift = [], []
    dcyc = tuple(tuple(c) for c in def4['cyc'])
    drv = tuple(r[0] for r in def4['res'])
    drix = tuple(r[1] for r in def4['res'])
    case = {'signal': fed} if scale_exp is None else {'signal': fed, 'times_2_to_the': scale_exp}
    if scale_exp is None:
        g4, _ = c01._code_obs('4', fed, (len(fed),))
        g3, _ = c01._code_obs('3', fed, (len(fed),))
        gF, _ = c01._code_obs('F', fed, (len(fed),))
    else:
        g4, g3, gF = (_scaled_obs(k, fed, scale_exp) for k in '43F')
    for name, g in (('4', g4), ('3', g3), ('F', gF)):
        if 'raised' in g:
            viol.append(('detector %s raised %s' % (name, g['raised']), case, None, g))
    if viol:
        return viol, drift
    if g4['cyc'] != dcyc or g4['rv'] != drv or g4['rix'] != drix:
        viol.append(('four-point detector differs from the textbook four-point rule', case,
                     {'cyc': dcyc, 'rv': drv, 'rix': drix}, g4))
    if Counter(g3['cyc']) != Counter(dcyc) or g3['rv'] != drv or g3['rix'] != drix:
        viol.append(('three-point detector: multiset of cycles / residual differs from the four-point definition', case,
                     {'cyc_bag': sorted(dcyc), 'rv': drv, 'rix': drix}, g3))
    elif o3_model is not None and g3['cyc'] != tuple(tuple(c) for c in o3_model['cyc']):
        drift.append('three-point cycle ORDER differs from model for %s (bag equal)' % (fed,))
    if gF['cyc'] != tuple(tuple(c) for c in oF_model['cyc']) or gF['rv'] != tuple(oF_model['rv']):
        viol.append(('FKM detector differs from the Clormann-Seeger HCM rule on the interior reversals', case,
                     {'cyc': oF_model['cyc'], 'rv': oF_model['rv']}, gF))
    # every turning point exactly once; every index addresses its value
    ts = turn_seq(fed)
    for name, g in (('4', g4), ('3', g3)):
        used = [i for c in g['cyc'] for i in c[2:]] + list(g['rix'])
        if Counter(used) != Counter(ts):
            viol.append(('detector %s: cycle end points + residual do not use every turning point exactly once' % name, case, ts, used))
        for c in g['cyc']:
            if fed[c[2]] != c[0] or fed[c[3]] != c[1]:
                viol.append(('detector %s: reported index does not address the reported value' % name, case, None, c))
        for v, i in zip(g['rv'], g['rix']):
            if fed[i] != v:
                viol.append(('detector %s: residual index does not address the residual value' % name, case, None, (v, i)))
    tv = [fed[i] for i in ts[1:-1]]
    if Counter([x for c in gF['cyc'] for x in c] + list(gF['rv'])) != Counter(tv):
        viol.append(('FKM: cycles + residual do not use every interior reversal exactly once', case, tv, gF))
    return viol, drift


def _replay_blocks(blocks):
    n, nontriv, drift, viol, samples = 0, [], [], [], []
    for b in blocks:
        st = parse_state(b.strip())
        fed = st['fed']
        if len(fed) < 2:
            continue
        n += 1
        v, d = check_against_definition(fed, st['def4'], st['oF'], st['o3'])
        viol += v
        drift += d
        if n % 4 == 0:      # same signal at a very small / large magnitude
            v, d = check_against_definition(fed, st['def4'], st['oF'], None, scale_exp=(-40 if n % 8 == 0 else 30))
            viol += v
        if len(st['def4']['cyc']) >= 1:
            nontriv.append(fed)
        if len(samples) < 1 and len(st['def4']['cyc']) >= 2:
            samples.append({'signal': fed, 'definition_cycles': st['def4']['cyc'], 'definition_residual': st['def4']['res'],
                            'hcm_cycles': st['oF']['cyc']})
    return n, nontriv, drift[:5], viol[:5], samples


def _replay_near(blocks):
    n, nontriv, viol = 0, [], []
    for b in blocks:
        st = parse_state(b.strip())
        fed = st['fed']
        if len(fed) < 4:
            continue
        n += 1
        v, _ = check_against_definition(fed, st['def4'], st['oF'], st['o3'])
        viol += v
        if len(st['def4']['cyc']) >= 1:
            nontriv.append(fed)
    return n, nontriv, [], viol[:5], []


def _replay_rev(blocks):
    """Reversal-only signals over -3..3: the FKM detector against the HCM rule of the specification, the 3/4-point detectors against the definition."""
    n, nontriv, viol = 0, [], []
    for b in blocks:
        st = parse_state(b.strip())
        fed = st['fed']
        if len(fed) < 5:
            continue
        n += 1
        gF, _ = c01._code_obs('F', fed, (len(fed),))
        case = {'signal': fed}
        if 'raised' in gF:
            viol.append(('detector F raised %s' % gF['raised'], case, None, gF))
        elif gF['cyc'] != tuple(tuple(c) for c in st['oF']['cyc']) or gF['rv'] != tuple(st['oF']['rv']):
            viol.append(('FKM detector differs from the Clormann-Seeger HCM rule on the interior reversals', case, {'cyc': st['oF']['cyc'], 'rv': st['oF']['rv']}, gF))
        if n % 5 == 0:
            g4, _ = c01._code_obs('4', fed, (len(fed),))
            dcyc = tuple(tuple(c) for c in st['def4']['cyc'])
            if 'raised' in g4 or g4['cyc'] != dcyc or g4['rv'] != tuple(r[0] for r in st['def4']['res']):
                viol.append(('four-point detector differs from the textbook four-point rule', case, {'cyc': dcyc}, g4))
        if len(st['oF']['cyc']) >= 2:
            nontriv.append(fed)
    return n, nontriv, viol[:5]


def run(chk):
    quick = chk.tier == 'quick'
    cfg = os.path.join(SPEC, 'rainflow', 'MC_OnePiece_quick.cfg' if quick else 'MC_OnePiece_thorough.cfg')
    res = tlc.run(TLA, cfg, dump=True, timeout=3000, heap='12g')
    chk.tlc(os.path.basename(cfg), res, 'all signals, one piece: stack kernels = leftmost-quadruple rewriting; partition; index addressing; HCM')
    if res.violated:
        chk.machinery.append('model invariant %s violated at %s' % (res.violated, res.trace[-1:] ))
    if res.dump_path and os.path.exists(res.dump_path):
        parts = par.split_dump(res.dump_path, 64)
        total = 0
        for n, nontriv, drift, viol, samples in par.pmap(_replay_blocks, parts, chunksize=1):
            total += n
            for k in nontriv:
                chk.nontrivial(k)
            chk.drift += drift
            for s in samples:
                chk.sample(s, cap=3)
            for what, case, exp, got in viol:
                chk.violation(what, case, exp, got, part='replay')
        chk.cov['traces_validated_against_impl'] += total
        chk.evals(total * 3)
        chk.part('replay', states_replayed=total, detectors=3)
        os.remove(res.dump_path)
    # reversal-only signals: longer sequences over a larger alphabet (-3..3) at the same cost
    cfg = os.path.join(SPEC, 'rainflow', 'MC_OnePiece_rev_quick.cfg' if quick else 'MC_OnePiece_rev_thorough.cfg')
    res = tlc.run(TLA, cfg, dump=True, timeout=3000, heap='12g')
    chk.tlc(os.path.basename(cfg), res, 'all strictly alternating signals over -3..3, one piece: the same invariants on reversal sequences of up to %d samples' % (8 if quick else 9))
    if res.violated:
        chk.machinery.append('model invariant %s violated at %s' % (res.violated, res.trace[-1:]))
    if res.dump_path and os.path.exists(res.dump_path):
        total = 0
        for n, nontriv, viol in par.pmap(_replay_rev, par.split_dump(res.dump_path, 64), chunksize=1):
            total += n
            for k in nontriv:
                chk.nontrivial(k)
            for what, case, exp, got in viol:
                chk.violation(what, case, exp, got, part='replay_reversals')
        chk.cov['traces_validated_against_impl'] += total
        chk.evals(total)
        chk.part('replay_reversals', states_replayed=total)
        os.remove(res.dump_path)
    # near ties: sample values whose ranges differ by one count at 2^24 .. 2^25 (different numbers that agree in their first seven digits)
    cfg = os.path.join(SPEC, 'rainflow', 'MC_OnePiece_near_quick.cfg' if quick else 'MC_OnePiece_near_thorough.cfg')
    res = tlc.run(TLA, cfg, dump=True, timeout=3000, heap='12g')
    chk.tlc(os.path.basename(cfg), res, 'all strictly alternating signals over {0, 3, 2^24, 2^24+1, 2^25+1}, one piece: the same invariants where neighbouring ranges differ in the eighth digit')
    if res.violated:
        chk.machinery.append('model invariant %s violated at %s' % (res.violated, res.trace[-1:]))
    if res.dump_path and os.path.exists(res.dump_path):
        total = 0
        for n, nontriv, drift, viol, samples in par.pmap(_replay_near, par.split_dump(res.dump_path, 64), chunksize=1):
            total += n
            for k in nontriv:
                chk.nontrivial(k)
            for what, case, exp, got in viol:
                chk.violation(what, case, exp, got, part='replay_near_ties')
        chk.cov['traces_validated_against_impl'] += total
        chk.evals(total * 3)
        chk.part('replay_near_ties', states_replayed=total, detectors=3)
        os.remove(res.dump_path)
    # the chunked model also carries the C02 invariants in every chunked state (quick instance of C01)
    # (C) recorded one-piece executions of long integer signals, TLC evaluates the definition on the logged signal
    rng = random.Random(chk.seed * 104729 + 5)
    ntr = 180 if quick else 1500
    traces, meta = [], []
    for i in range(ntr):
        n = rng.randint(4, 60 if quick else 90)
        sig = c01.random_signal(rng, n, rng.choice([2, 3, 4, 7, 30]))
        kind = '34F'[i % 3]
        try:
            cuts = [n] if i % 2 == 0 else c01.random_partition(rng, n)     # the definition must also be met by chunked feeds
            tr, det = c01.record_trace(kind, sig, cuts)
        except Exception as ex:
            chk.violation('detector raised: %r' % ex, {'detector': kind, 'signal': sig}, part='trace')
            continue
        traces.append(tr)
        meta.append((kind, sig, cuts))
    out = tlc.validate_traces(c01.TRACE_TLA, c01.TRACE_CFG, traces, 'c02', nsplit=12)
    chk.cov['states'] += out['states']
    chk.cov['transitions'] += out['generated']
    chk.part('trace_validation', traces=len(traces), tlc_states=out['states'], wall_s=round(out['wall'], 1))
    for e in out['errors']:
        chk.machinery.append('trace validation: ' + e)
    for gi, inv, st in out['inv']:
        chk.machinery.append('invariant %s failed on the model state of an accepted trace' % inv)
    acc = 0
    for (kind, sig, cuts), v in zip(meta, out['verdicts']):
        chk.evals(1)
        if v is None:
            continue
        if v[1] == 'ok':
            acc += 1
            chk.nontrivial((tuple(sig), kind))
        else:
            # rejected by the spec: the logged output is not what Process yields, and the invariant IsDefinition ties
            # Process to the definition on this very signal -> decide on D directly
            chk.violation('recorded one-piece run rejected by the specification (clause %s): detector output differs from the definition' % v[1],
                          {'detector': kind, 'signal': sig, 'chunks': cuts}, None, c01._code_obs(kind, sig, cuts)[0], part='trace')
    chk.cov['traces_validated_against_impl'] += acc
    if traces:
        chk.sample({'recorded_trace': {'kind': traces[0]['kind'], 'events': traces[0]['events'][:1]}}, cap=4)
    chk.cov['rule'] = ('TLC enumerates every signal over Vals with 2..MaxLen samples (integer alphabet => ties are the common case); '
                       'each is replayed in one piece into the three detectors and compared with the definition-level result of the spec. '
                       'Non-trivial = the definition closes >= 1 cycle; distinct by signal. Recorded long signals validated by TLC (IsDefinition evaluated per trace).')
    chk.cov['rule'] += ' Also: strictly alternating signals over -3..3 with up to 8 (9) samples (all replayed into the FKM detector, every fifth into the four-point detector); strictly alternating signals over {0, 3, 2^24, 2^24+1, 2^25+1} with up to 7 (9) samples (ranges that differ in the eighth digit), all three detectors.'
    chk.cov['exhaustive'] = True
    chk.assumptions += ['FKM part: oracle is the HCM rule in the guideline form pyLife documents (see DESIGN 9); equivalence with the 1985 publication not claimed',
                        'integer-valued samples', 'TLC/SANY/Json module; harness parser and projection']


def replay(chk, path):
    import json
    v = json.load(open(path))
    sig = v['case']['signal']
    for k in '34F':
        print(k, c01._code_obs(k, sig, (len(sig),))[0])
    print('expected', v.get('expected'))
    return 0

"""C12 — mean stress transformation follows the iso-damage lines of the Haigh diagram."""
import os, warnings, random
from fractions import Fraction
import numpy as np
import pandas as pd
from .. import SPEC, tlc, par, findings
from ..tlaparse import parse_state, parse_dump

LEVEL = 'model_checking'
TLA = os.path.join(SPEC, 'meanstress', 'MC_Haigh.tla')
DIAG = {'g0': ('g', 0.3, 0.1), 'g1': ('g', 0.5, 0.5), 'g2': ('g', 0.0, 0.0), 'g3': ('g', 0.25, 0.0),
        'f0': ('f', 0.5, 0.3, 0.2, 0.1, 0.0, 0.25, 0.5), 'f1': ('f', 0.3, 0.2, 0.1, 0.1, 0.1, 0.5, 0.75),
        'f2': ('f', 0.3, 0.2, 0.1, 0.1, 0.5, 0.25, 0.5)}      # f2: steep compression segment (M4 = 1/2 > 1/3)
GOAL = {'ninf': -np.inf, 'm3': -3.0, 'm1': -1.0, 'mh': -0.5, 'z': 0.0, 'q': 0.25, 'h': 0.5, 't': 0.75, 'two': 2.0, 'five': 5.0}


def close(a, b, rel=1e-9):
    a, b = np.asarray(a, dtype=np.float64), np.asarray(b, dtype=np.float64)
    return a.shape == b.shape and bool(np.all(np.abs(a - b) <= rel * np.maximum(np.abs(b), 1e-12)))


def plain(diag, amp, mean, Rg):
    from pylife.strength.meanstress import fkm_goodman, five_segment_correction
    d = DIAG[diag]
    if d[0] == 'g':
        return fkm_goodman(np.asarray(amp, dtype=np.float64), np.asarray(mean, dtype=np.float64), d[1], d[2], Rg)
    return five_segment_correction(np.asarray(amp, dtype=np.float64), np.asarray(mean, dtype=np.float64), *d[1:], Rg)


def accessor(diag, frame, Rg):
    import pylife.strength.meanstress  # noqa
    d = DIAG[diag]
    if d[0] == 'g':
        return frame.meanstress_transform.fkm_goodman(pd.Series({'M': d[1], 'M2': d[2]}), Rg).amplitude.to_numpy()
    return frame.meanstress_transform.five_segment(pd.Series(dict(zip(['M0', 'M1', 'M2', 'M3', 'M4', 'R12', 'R23'], d[1:]))), Rg).amplitude.to_numpy()


def accessor_keyed(diag, frame, Rg):
    """Like accessor(), but returns the transformed amplitudes keyed by the frame's index labels."""
    import pylife.strength.meanstress  # noqa
    d = DIAG[diag]
    if d[0] == 'g':
        return frame.meanstress_transform.fkm_goodman(pd.Series({'M': d[1], 'M2': d[2]}), Rg).amplitude
    return frame.meanstress_transform.five_segment(pd.Series(dict(zip(['M0', 'M1', 'M2', 'M3', 'M4', 'R12', 'R23'], d[1:]))), Rg).amplitude


def _replay(args):
    blocks, fs, seed = args
    rng = random.Random(seed)
    n, nontriv, viol, known, samples = 0, [], [], set(), []
    groups = {}
    for b in blocks:
        st = parse_state(b.strip())
        if st['out'] == (0, 0):
            continue
        groups.setdefault((st['dg'], st['rg']), []).append(st)
    with warnings.catch_warnings():
        warnings.simplefilter('ignore')
        for (dg, rg), sts in groups.items():
            Rg = GOAL[rg]
            amp = [float(s['a']) for s in sts]
            mean = [float(s['m']) for s in sts]
            want = [float(Fraction(*s['out'])) for s in sts]
            wantI = [float(Fraction(*s['outI'])) for s in sts]
            try:
                got = plain(dg, amp, mean, Rg)                      # all cycles of the group in one call (multi-row collective)
                single = [float(plain(dg, [a], [m], Rg)[0]) for a, m in zip(amp, mean)]
                frame = pd.DataFrame({'range': 2 * np.asarray(amp), 'mean': mean}, index=pd.Index([10 * i + 1 for i in range(len(amp))], name='element_id'))
                acc = accessor(dg, frame, Rg)
                ft = pd.DataFrame({'from': np.asarray(mean) - np.asarray(amp), 'to': np.asarray(mean) + np.asarray(amp)})
                acc2 = accessor(dg, ft, Rg)
                # the same from/to collective with its exact zeros written as -0.0 (what scaling by a negative factor or a subtraction leaves behind)
                ftz = ft.copy()
                for col in ('from', 'to'):
                    ftz[col] = [-0.0 if v == 0.0 else v for v in ftz[col]]
                if (ft.to_numpy() == 0.0).any():
                    accz = accessor(dg, ftz, Rg)
                    if not close(accz, acc2, 1e-12):
                        k0 = int(np.nonzero(~np.isclose(np.asarray(accz, dtype=float), np.asarray(acc2, dtype=float), rtol=1e-12, atol=0, equal_nan=True))[0][0])
                        viol.append(('a cycle whose upper or lower load is written -0.0 instead of 0.0 is transformed to another amplitude', {'diagram': DIAG[dg], 'R_goal': Rg, 'from': float(ftz['from'].iloc[k0]), 'to': float(ftz['to'].iloc[k0])},
                                     float(np.asarray(acc2)[k0]), float(np.asarray(accz)[k0])))
                # the same collective with its rows (element ids) in another order: every element keeps its own result
                perm = list(range(len(amp)))
                rng.shuffle(perm)
                keyed = accessor_keyed(dg, frame.iloc[perm], Rg)
                if not (set(keyed.index) == set(frame.index) and close(keyed.reindex(frame.index).to_numpy(), acc, 1e-12)):
                    viol.append(('the collective with its rows in another order gives an element another transformed amplitude', {'diagram': DIAG[dg], 'R_goal': Rg, 'row_permutation': perm[:8]},
                                 np.asarray(acc).tolist()[:4], keyed.reindex(frame.index).to_numpy().tolist()[:4]))
            except Exception as ex:
                viol.append(('mean stress transformation raised %r' % ex, {'diagram': DIAG[dg], 'R_goal': Rg, 'amplitude': amp, 'mean': mean}, None, None))
                continue
            # the same collective as integer-typed arrays / columns, and in other units (the transformation is homogeneous of degree one)
            try:
                from pylife.strength.meanstress import fkm_goodman as _fg, five_segment_correction as _fs
                d = DIAG[dg]
                ai, mi = np.asarray([int(x) for x in amp], dtype=np.int64), np.asarray([int(x) for x in mean], dtype=np.int64)
                gi = _fg(ai, mi, d[1], d[2], Rg) if d[0] == 'g' else _fs(ai, mi, *d[1:], Rg)
                fi = pd.DataFrame({'range': 2 * ai, 'mean': mi}, index=pd.Index([10 * i + 1 for i in range(len(amp))], name='element_id'))
                acci = accessor(dg, fi, Rg)
                if not (close(np.asarray(gi, dtype=np.float64), got, 1e-12) and close(acci, got, 1e-12)):
                    viol.append(('integer-typed amplitudes / means give other values than the same numbers as floats', {'diagram': DIAG[dg], 'R_goal': Rg, 'amplitude': amp[:4], 'mean': mean[:4]},
                                 np.asarray(got).tolist()[:4], [np.asarray(gi).tolist()[:4], np.asarray(acci).tolist()[:4]]))
                for k in (2.0 ** -30, 0.1, 1000.0):
                    gk = plain(dg, [k * a for a in amp], [k * m for m in mean], Rg)
                    if not close(gk, k * np.asarray(got), 1e-12 if k != 0.1 else 1e-9):
                        viol.append(('the transformed amplitude does not scale with the unit of the stresses (factor %r)' % k, {'diagram': DIAG[dg], 'R_goal': Rg, 'amplitude': amp[:4], 'mean': mean[:4]},
                                     (k * np.asarray(got)).tolist()[:4], np.asarray(gk).tolist()[:4]))
            except Exception as ex:
                viol.append(('mean stress transformation raised %r for integer-typed / rescaled input' % ex, {'diagram': DIAG[dg], 'R_goal': Rg}, None, None))
            for i, s in enumerate(sts):
                n += 1
                case = {'diagram': DIAG[dg], 'R_goal': Rg, 'amplitude': amp[i], 'mean': mean[i]}
                if not close(got[i], want[i]):
                    f = next((f for f in fs if f.get('match') == 'M4_ninf' and rg == 'ninf' and DIAG[dg][0] == 'f' and DIAG[dg][5] != 0.0
                              and (mean[i] - amp[i]) / (mean[i] + amp[i] if mean[i] + amp[i] != 0 else np.nan) > 1), None)
                    if f is not None and close(got[i], wantI[i]):
                        known.add('%s: %s' % (f['id'], f['symptom']))
                    else:
                        viol.append(('transformed amplitude is not on the iso-damage line of the Haigh diagram', case, want[i], float(got[i])))
                if not (close(single[i], got[i], 1e-12) and close(acc[i], got[i], 1e-12) and close(acc2[i], got[i], 1e-12)):
                    viol.append(('plain function (single / multi-row), range-mean accessor and from-to accessor disagree', case, float(got[i]), [single[i], float(acc[i]), float(acc2[i])]))
                if abs(mean[i]) > 0 and rg not in ('m1',):
                    nontriv.append((dg, rg, s['a'], s['m']))
            # path independence / idempotence on the real code for a sample: to R_1, then to R_2
            g2 = rng.choice(sorted(GOAL))
            if g2 != rg:
                try:
                    a1 = plain(dg, amp, mean, GOAL[g2])
                    ok = np.isfinite(a1) & (a1 > 0)
                    mu2 = -1.0 if GOAL[g2] == -np.inf else (1 + GOAL[g2]) / (1 - GOAL[g2])
                    a12 = plain(dg, a1[ok], a1[ok] * mu2, Rg)
                    for k, i in enumerate(np.where(ok)[0]):
                        n += 1
                        # only claimed where the exact path stays positive: judged by closeness to the exact direct value OR by a non-positive leg
                        if not close(a12[k], want[i], 1e-8):
                            legs_positive = True   # the model only guarantees this when PathPositive holds for both legs; accept otherwise
                            d = DIAG[dg]
                            if min(a1[i], a12[k]) <= 1e-9:
                                legs_positive = False
                            if legs_positive and _exact_two_step_ok(sts[i], dg, g2, rg):
                                viol.append(('transforming to R_1 and then to R_2 differs from transforming to R_2 directly', {'diagram': DIAG[dg], 'R_1': GOAL[g2], 'R_2': Rg, 'amplitude': amp[i], 'mean': mean[i]}, want[i], float(a12[k])))
                except Exception as ex:
                    viol.append(('two-step transformation raised %r' % ex, {'diagram': DIAG[dg], 'R_1': GOAL[g2], 'R_2': Rg}, None, None))
            if not samples and len(sts) >= 3:
                samples.append({'diagram': DIAG[dg], 'R_goal': Rg, 'cycle_amplitude_mean': [amp[1], mean[1]], 'exact_amplitude': str(Fraction(*sts[1]['out']))})
    return n, nontriv, viol[:6], sorted(known), samples


def _exact_two_step_ok(st, dg, g1, g2):
    """Python mirror of the model's domain restriction for the two-step path: both legs of the exact path keep 1 + M mu > 0.
    (conservative: only simple FKM-Goodman / five-segment diagrams; evaluates with Fractions)"""
    from fractions import Fraction as F
    d = DIAG[dg]
    if d[0] == 'g':
        segs = [(-np.inf, -1.0, 0.0), (-1.0, 1.0, d[1]), (1.0, np.inf, d[2])]
    else:
        mu = lambda R: (1 + R) / (1 - R)
        segs = [(-np.inf, -1.0, d[5]), (-1.0, 1.0, d[1]), (1.0, mu(d[6]), d[2]), (mu(d[6]), mu(d[7]), d[3]), (mu(d[7]), np.inf, d[4])]

    def walk(a, mu0, mu1):
        cur = mu0
        while cur != mu1:
            up = mu1 > cur
            bs = [b for s in segs for b in s[:2] if np.isfinite(b) and ((cur < b < mu1) if up else (mu1 < b < cur))]
            nb = (min(bs) if up else max(bs)) if bs else mu1
            lo, hi = (cur, nb) if up else (nb, cur)
            M = next(s[2] for s in segs if s[0] <= lo and hi <= s[1])
            if 1 + M * cur <= 0 or 1 + M * nb <= 0:
                return None
            a = a * (1 + M * cur) / (1 + M * nb)
            cur = nb
        return a
    muR = lambda R: -1.0 if R == -np.inf else (1 + R) / (1 - R)
    a0, m0 = float(st['a']), float(st['m'])
    a1 = walk(a0, m0 / a0, muR(GOAL[g1]))
    if a1 is None or a1 <= 0:
        return False
    a2 = walk(a1, muR(GOAL[g1]), muR(GOAL[g2]))
    return a2 is not None and a2 > 0


def check_per_element(chk, states_by_group):
    """Index layouts: per-element mean stress sensitivities (DataFrame of M, M2 indexed by element_id) against cycles indexed by
    (element_id, cycle_number): every element must get the amplitudes it gets with its own diagram alone."""
    import pylife.strength.meanstress  # noqa
    for rg in ('m1', 'z', 'mh', 'ninf', 'h'):
        a = states_by_group.get(('g0', rg), [])
        b = states_by_group.get(('g3', rg), [])
        if len(a) < 3 or len(b) < 3:
            continue
        a, b = a[:12], b[:9]
        sens = pd.DataFrame({'M': [DIAG['g0'][1], DIAG['g3'][1]], 'M2': [DIAG['g0'][2], DIAG['g3'][2]]}, index=pd.Index([7, 3], name='element_id'))
        rows, amp, mean, want = [], [], [], []
        for eid, sts in ((7, a), (3, b)):
            for i, st in enumerate(sts):
                rows.append((eid, i))
                amp.append(float(st['a'])); mean.append(float(st['m'])); want.append(float(Fraction(*st['out'])))
        cyc = pd.DataFrame({'range': 2 * np.asarray(amp), 'mean': mean}, index=pd.MultiIndex.from_tuples(rows, names=['element_id', 'cycle_number']))
        c0, s0 = cyc.copy(deep=True), sens.copy(deep=True)
        chk.evals(len(rows))
        try:
            with warnings.catch_warnings():
                warnings.simplefilter('ignore')
                res = cyc.meanstress_transform.fkm_goodman(sens, GOAL[rg])
            got = res.amplitude.reindex(cyc.index).to_numpy() if set(res.amplitude.index.names) == set(cyc.index.names) else None
            if got is None or not close(got, want):
                chk.violation('per-element sensitivities: an element does not get the amplitudes of its own Haigh diagram', {'R_goal': GOAL[rg], 'elements': {7: DIAG['g0'], 3: DIAG['g3']}},
                              want[:4], None if got is None else got[:4].tolist(), part='layout')
            else:
                chk.nontrivial(('per_element', rg))
            if not (cyc.equals(c0) and sens.equals(s0)):
                chk.violation('mean stress transformation modified its operands', {'R_goal': GOAL[rg]}, part='layout')
        except Exception as ex:
            chk.violation('per-element mean stress transformation raised %r' % ex, {'R_goal': GOAL[rg]}, part='layout')


def check_matrix(chk, rng, quick):
    """Rainflow matrix interface: totals conserved; exact placement when ranges hit class borders (M = 0, so ranges are unchanged)."""
    import pylife.strength.meanstress  # noqa
    res = tlc.run(os.path.join(SPEC, 'meanstress', 'MC_Rebin.tla'), os.path.join(SPEC, 'meanstress', 'MC_Rebin.cfg'), dump=True, timeout=600)
    chk.tlc('MC_Rebin.cfg', res, 're-binning predicate: every transformed range in exactly one result class')
    if res.violated:
        chk.machinery.append('model invariant %s violated: %s' % (res.violated, res.trace[-1:]))
    cases = list(parse_dump(res.dump_path)) if res.dump_path and os.path.exists(res.dump_path) else []
    bycfg = {}
    for st in cases:
        bycfg.setdefault((st['maxv'], st['binsize']), []).append(st)
    n = 0
    with warnings.catch_warnings():
        warnings.simplefilter('ignore')
        for (maxv, bs), sts in sorted(bycfg.items()):
            # range/mean matrix whose range-class mids are the integer values v (width bs), mean classes of width bs around 0
            vals = sorted(s['v'] for s in sts if s['v'] > 0)
            if not vals or vals[-1] != maxv:
                continue
            for means in ([0.0], [-bs * 1.0, bs * 1.0]):
                rows, counts = [], []
                for v in vals:
                    for mm in means:
                        rows.append((pd.Interval(v - bs / 2, v + bs / 2), pd.Interval(mm - bs / 2, mm + bs / 2)))
                        counts.append(float(1 + (v * 7 + int(mm)) % 5))
                idx = pd.MultiIndex.from_tuples(rows, names=['range', 'mean'])
                mat = pd.Series(counts, index=idx)
                n += 1
                chk.evals(1)
                case = {'range_class_mids': vals, 'class_width': bs, 'mean_class_mids': means, 'counts': counts}
                try:
                    out = mat.meanstress_transform.fkm_goodman(pd.Series({'M': 0.0, 'M2': 0.0}), -1.0).to_pandas()
                except Exception as ex:
                    chk.violation('matrix transformation raised %r' % ex, case, part='matrix')
                    continue
                if not close(out.sum(), sum(counts), 1e-12):
                    chk.violation('transforming a rainflow matrix does not conserve the total number of cycles', case, sum(counts), float(out.sum()), part='matrix')
                    continue
                # exact placement: class of each range value as the model says
                nb = sts[0]['out']['n']
                want = [0.0] * nb
                for v in vals:
                    cls = next(s['out']['cls'] for s in sts if s['v'] == v)
                    want[cls - 1] += sum(c for (r, _), c in zip(rows, counts) if r.mid == v)
                got = out.groupby(level='range', sort=False).sum().to_numpy() if len(means) > 1 else out.to_numpy()
                if len(got) != nb or not close(got, want, 1e-12):
                    chk.violation('re-binned class counts differ from the (left-open, right-closed; first class closed) rule', case, want, np.asarray(got).tolist(), part='matrix')
                else:
                    chk.nontrivial(('matrix', maxv, bs, len(means)))
        # non-trivial sensitivities, from/to matrices symmetric about zero: totals only
        for k in range(160 if quick else 800):
            w = rng.choice([1.0, 2.0, 10.0, 0.7, 3.3])
            nn = rng.choice([2, 3, 4, 5, 7, 9])
            edges = [w * (i - nn) for i in range(2 * nn + 1)]
            iv = pd.IntervalIndex.from_breaks(edges)
            idx = pd.MultiIndex.from_product([iv, iv], names=['from', 'to'])
            counts = [float(rng.randint(0 if k % 2 else 1, 4)) for _ in range(len(idx))]      # every second matrix fully populated (the largest transformed range is occupied)
            mat = pd.Series(counts, index=idx)
            M = rng.choice([0.0, 0.25, 0.3, 0.5])
            Rg = rng.choice([-1.0, 0.0, -0.5, 0.5])
            n += 1
            chk.evals(1)
            try:
                out = mat.meanstress_transform.fkm_goodman(pd.Series({'M': M, 'M2': M / 3}), Rg).to_pandas()
                # the result is a function of the matrix, not of the order in which its classes are stored
                perm = list(range(len(mat)))
                rng.shuffle(perm)
                outp = mat.iloc[perm].meanstress_transform.fkm_goodman(pd.Series({'M': M, 'M2': M / 3}), Rg).to_pandas()
                if not (len(outp) == len(out) and close(outp.sort_index().to_numpy(), out.sort_index().to_numpy(), 1e-12)):
                    chk.violation('transforming a from/to matrix whose classes are stored in another order gives another histogram', {'edges': edges, 'M': M, 'R_goal': Rg, 'counts': counts, 'row_permutation': perm},
                                  out.sort_index().tolist(), outp.sort_index().tolist(), part='matrix')
                    continue
                if not close(out.sum(), sum(counts), 1e-12):
                    chk.violation('transforming a from/to matrix does not conserve the total number of cycles', {'edges': edges, 'M': M, 'R_goal': Rg, 'counts': counts}, sum(counts), float(out.sum()), part='matrix')
                else:
                    chk.nontrivial(('ft', k))
            except Exception as ex:
                chk.violation('matrix transformation raised %r' % ex, {'edges': edges, 'M': M, 'R_goal': Rg}, part='matrix')
        # matrices with an additional index level (node_id), each node owning OTHER classes (sparse matrices), optionally with per-node
        # sensitivities: every node's result = its own cycles at their transformed ranges, sorted into the result's own classes
        from pylife.strength.meanstress import fkm_goodman as _fg
        for k in range(6 if quick else 40):
            w = rng.choice([1.0, 2.0, 0.7])
            nn = rng.choice([2, 3])
            edges = [w * (i - nn) for i in range(2 * nn + 1)]
            iv = pd.IntervalIndex.from_breaks(edges)
            full = pd.MultiIndex.from_product([iv, iv], names=['from', 'to'])
            nodes = {}
            for nid in (7, 3, 5)[:rng.choice([2, 3])]:
                cnt = pd.Series([float(rng.randint(0, 3)) for _ in range(len(full))], index=full)
                cnt = cnt[cnt > 0]
                if len(cnt):
                    nodes[nid] = cnt
            if len(nodes) < 2:
                continue
            mat = pd.concat(nodes, names=['node_id'])
            if rng.random() < 0.5:
                mat = mat.reorder_levels(['from', 'to', 'node_id'])
            per_node = rng.random() < 0.5
            sens = {nid: (rng.choice([0.0, 0.25, 0.3, 0.5]), rng.choice([0.0, 0.1])) for nid in nodes}
            if not per_node:
                sens = {nid: sens[list(nodes)[0]] for nid in nodes}
            haigh = pd.DataFrame({'M': [sens[n_][0] for n_ in nodes], 'M2': [sens[n_][1] for n_ in nodes]}, index=pd.Index(list(nodes), name='node_id')) if per_node \
                else pd.Series({'M': sens[list(nodes)[0]][0], 'M2': sens[list(nodes)[0]][1]})
            Rg = rng.choice([-1.0, 0.0, -0.5])
            n += 1
            chk.evals(1)
            case = {'edges': edges, 'R_goal': Rg, 'per_node_sensitivities': per_node, 'sensitivities': {str(a): list(b) for a, b in sens.items()},
                    'populated_classes_per_node': {str(a): len(b) for a, b in nodes.items()}, 'level_order': list(mat.index.names)}
            try:
                out = mat.meanstress_transform.fkm_goodman(haigh, Rg).to_pandas()
            except Exception as ex:
                chk.violation('transformation of a matrix with a node_id level raised %r' % ex, case, part='matrix')
                continue
            ok = True
            if 'node_id' not in list(out.index.names) or set(out.index.get_level_values('node_id')) != set(nodes):
                chk.violation('transformed matrix lost (or changed) the node_id level of the matrix it was given', case, sorted(nodes), list(out.index.names), part='matrix')
                continue
            for nid, cnt in nodes.items():
                o = out.xs(nid, level='node_id')
                o = o.groupby(level='range', sort=False).sum() if isinstance(o.index, pd.MultiIndex) else o
                classes = sorted(o.index, key=lambda i_: i_.left)
                want = {c_: 0.0 for c_ in classes}
                lost = 0.0
                for (fi, ti), c in cnt.items():
                    a_, m_ = abs(fi.mid - ti.mid) / 2.0, (fi.mid + ti.mid) / 2.0
                    r_ = 2.0 * float(_fg(np.array([a_]), np.array([m_]), sens[nid][0], sens[nid][1], Rg)[0])
                    hit = [c_ for j, c_ in enumerate(classes) if ((r_ >= c_.left - 1e-9 if j == 0 else r_ > c_.left + 1e-9) and r_ <= c_.right + 1e-9) or abs(r_ - c_.left) <= 1e-9 and j > 0 and False]
                    near = [c_ for c_ in classes if abs(r_ - c_.left) <= 1e-9 or abs(r_ - c_.right) <= 1e-9]
                    if near:            # a transformed range on a class border may go to either neighbour in floating point: only totals are compared then
                        lost = None
                        break
                    if hit:
                        want[hit[0]] += c
                if not close(float(o.sum()), float(cnt.sum()), 1e-12):
                    chk.violation('matrix with a node_id level: the cycles of a node are not conserved', {**case, 'node': nid}, float(cnt.sum()), float(o.sum()), part='matrix')
                    ok = False
                    break
                if lost is not None and not close([float(o[c_]) for c_ in classes], [want[c_] for c_ in classes], 1e-12):
                    chk.violation('matrix with a node_id level: the cycles of a node are not in the result classes of their own transformed ranges', {**case, 'node': nid},
                                  [want[c_] for c_ in classes], [float(o[c_]) for c_ in classes], part='matrix')
                    ok = False
                    break
            if ok:
                chk.nontrivial(('matrix_nodes', k))
    chk.part('matrix', matrices=n)
    return n


def _diagram(o):
    from pylife.strength.meanstress import HaighDiagram
    d = DIAG[o]
    if d[0] == 'g':
        return HaighDiagram.fkm_goodman(pd.Series({'M': d[1], 'M2': d[2]}))
    return HaighDiagram.five_segment(pd.Series(dict(zip(['M0', 'M1', 'M2', 'M3', 'M4', 'R12', 'R23'], d[1:]))))


def _collective(x):
    if x == 'unnamed3':
        return pd.DataFrame({'range': [2.0, 4.0, 3.0], 'mean': [1.0, -1.0, 0.5]})
    if x == 'named12':
        return pd.DataFrame({'range': [2.0, 5.0], 'mean': [0.5, 2.0]}, index=pd.Index([1, 2], name='element_id'))
    return pd.DataFrame({'range': [1.0, 6.0, 2.0], 'mean': [3.0, -2.0, 0.25]}, index=pd.Index([5, 6, 7], name='element_id'))


def _matrix(o):
    if o == 'rm':
        r = pd.IntervalIndex.from_breaks([0.0, 2.0, 4.0, 6.0])
        m = pd.IntervalIndex.from_breaks([-3.0, -1.0, 1.0, 3.0])
        return pd.Series([float(1 + (3 * i) % 5) for i in range(9)], index=pd.MultiIndex.from_product([r, m], names=['range', 'mean']))
    iv = pd.IntervalIndex.from_breaks([-4.0, -2.0, 0.0, 2.0, 4.0])
    return pd.Series([float((7 * i) % 4) for i in range(16)], index=pd.MultiIndex.from_product([iv, iv], names=['from', 'to']))


SENS = {'s0': {'M': 0.3, 'M2': 0.1}, 's1': {'M': 0.5, 'M2': 0.5}, 's2': {'M': 0.0, 'M2': 0.0}}


def _same(a, b):
    a, b = (x.to_pandas() if hasattr(x, 'to_pandas') else x for x in (a, b))
    return a.shape == b.shape and a.index.equals(b.index) and close(a.to_numpy(dtype=np.float64), b.to_numpy(dtype=np.float64), 1e-12)


def _nums(x):
    x = x.to_pandas() if hasattr(x, 'to_pandas') else x
    return np.asarray(x.to_numpy(dtype=np.float64)).tolist()


def _replay_held(blocks):
    import pylife.strength.meanstress  # noqa
    n, nontriv, viol = 0, [], []
    fresh = {}

    def fresh_answer(kind, o, g, x):
        if (kind, o, g, x) not in fresh:
            fresh[(kind, o, g, x)] = (_diagram(o).transform(_collective(x), GOAL[g]) if kind == 'haigh'
                                      else _matrix(o).meanstress_transform.fkm_goodman(pd.Series(SENS[x]), GOAL[g]))
        return fresh[(kind, o, g, x)]

    with warnings.catch_warnings():
        warnings.simplefilter('ignore')
        for b in blocks:
            st = parse_state(b.strip())
            hist = [tuple(c) for c in st['hist']]
            if len(hist) < 2:
                continue
            n += 1
            kind, o = st['kind'], st['obj']
            case = {'object': kind, 'built_from': o, 'calls_R_goal_argument': [list(c) for c in hist]}
            try:
                held = _diagram(o) if kind == 'haigh' else _matrix(o).meanstress_transform
                for k, (g, x) in enumerate(hist):
                    got = held.transform(_collective(x), GOAL[g]) if kind == 'haigh' else held.fkm_goodman(pd.Series(SENS[x]), GOAL[g])
                    want = fresh_answer(kind, o, g, x)
                    if not _same(got, want):
                        viol.append(('call %d on a kept %s answers differently from a fresh object (state carried between calls)' % (k + 1, 'HaighDiagram object' if kind == 'haigh' else 'matrix accessor'),
                                     case, _nums(want), _nums(got)))
                        break
                if len(set(hist)) > 1:
                    nontriv.append(('held', kind, o, tuple(hist)))
            except Exception as ex:
                viol.append(('call history on a kept object raised %r' % ex, case, None, None))
    return n, nontriv, viol[:4]


def check_held(chk):
    """Histories of calls on KEPT objects (HeldCalls.tla): the k-th answer equals the answer of a fresh object to the same call."""
    res = tlc.run(os.path.join(SPEC, 'meanstress', 'MC_HeldCalls.tla'), os.path.join(SPEC, 'meanstress', 'MC_HeldCalls.cfg'), dump=True, timeout=600)
    chk.tlc('MC_HeldCalls.cfg', res, 'call histories on a kept HaighDiagram object / a kept matrix accessor: no call changes the object')
    if res.violated:
        chk.machinery.append('model invariant %s violated: %s' % (res.violated, res.trace[-1:]))
    if not (res.dump_path and os.path.exists(res.dump_path)):
        return 0
    tot = 0
    for n, nontriv, viol in par.pmap(_replay_held, par.split_dump(res.dump_path, 32), chunksize=1):
        tot += n
        for x in nontriv:
            chk.nontrivial(x)
        for what, case, exp, got in viol:
            chk.violation(what, case, exp, got, part='held')
    os.remove(res.dump_path)
    chk.evals(tot)
    chk.part('held', histories=tot)
    return tot


def run(chk):
    quick = chk.tier == 'quick'
    cfgname = 'MC_Haigh_quick.cfg' if quick else 'MC_Haigh_thorough.cfg'
    res = tlc.run(TLA, os.path.join(SPEC, 'meanstress', cfgname), dump=True, timeout=3000)
    chk.tlc(cfgname, res, 'segment walk as coded = iso-damage line in exact rationals; fixed point, idempotence, path independence, monotone in amplitude')
    if res.violated:
        chk.machinery.append('model invariant %s violated: %s' % (res.violated, res.trace[-1:]))
    fs = findings.load('C12')
    if res.dump_path and os.path.exists(res.dump_path):
        parts = par.split_dump(res.dump_path, 1)     # group by (diagram, goal) inside one worker list, then split groups
        blocks = parts[0] if parts else []
        # split so that each (diagram, goal) group stays together: simply sort blocks by their dg/rg text
        key = lambda b: (b[b.index('dg = '):b.index('dg = ') + 10], b[b.index('rg = '):b.index('rg = ') + 12])
        blocks.sort(key=key)
        k = max(1, len(blocks) // 32)
        chunks, cur, last = [], [], None
        for b in blocks:
            kk = key(b)
            if len(cur) >= k and kk != last:
                chunks.append(cur)
                cur = []
            cur.append(b)
            last = kk
        if cur:
            chunks.append(cur)
        by_group = {}
        for b in blocks:
            st = parse_state(b.strip())
            if st['out'] != (0, 0) and st['dg'] in ('g0', 'g3'):
                by_group.setdefault((st['dg'], st['rg']), []).append(st)
        check_per_element(chk, by_group)
        tot = 0
        for n, nontriv, viol, known, samples in par.pmap(_replay, [(c, fs, chk.seed * 100 + i) for i, c in enumerate(chunks)], chunksize=1):
            tot += n
            for x in nontriv:
                chk.nontrivial(x)
            for s in samples[:1]:
                chk.sample(s, cap=3)
            for m in known:
                if m not in chk.known:
                    chk.known.append(m)
            for what, case, exp, got in viol:
                chk.violation(what, case, exp, got, part='replay')
        chk.evals(tot)
        chk.cov['traces_validated_against_impl'] += tot
        os.remove(res.dump_path)
    rng = random.Random(chk.seed + 12)
    chk.cov['traces_validated_against_impl'] += check_matrix(chk, rng, quick)
    chk.cov['traces_validated_against_impl'] += check_held(chk)
    chk.cov['rule'] = ('TLC enumerates cycles (integer amplitude x mean incl. R = -inf, R = 0, R > 1) x Haigh diagrams (FKM-Goodman incl. M = M2, M = 0; five-segment incl. M4 != 0) x 10 target R '
                       '(incl. -inf and R > 1), restricted to paths whose exact amplitude stays positive, and proves: walk as coded = iso-damage line, fixed point, idempotence, path independence, monotone. '
                       'Every state is evaluated by the plain functions (single and multi-row), the range/mean and from/to collective accessors; two-step paths on a seeded sample; '
                       'the matrix interface on integer-edge matrices whose ranges hit class borders (exact class placement from MC_Rebin) and on random from/to matrices (totals); call histories (MC_HeldCalls, up to 3 calls) on a kept HaighDiagram object and a kept matrix accessor against fresh objects. '
                       'Non-trivial = non-zero mean and target other than R = -1.')
    chk.cov['rule'] += ' Also: integer-typed inputs, other stress units (2^-30, 0.1, 1000), collective rows in another order (keyed), call histories on kept HaighDiagram objects / matrix accessors (MC_HeldCalls), matrices with permuted rows, with a node_id level (sparse, per-node sensitivities), 160 random from/to matrices.'
    chk.cov['exhaustive'] = True
    chk.assumptions += ['rational lattice of cycles / sensitivities; comparisons at rel 1e-9']


def replay(chk, path):
    print(open(path).read())
    return 0

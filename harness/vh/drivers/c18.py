"""C18 — Woehler test-data analysis: zones partition the tests; estimators are equivariant and recover exact curves."""
import os, math, random, warnings
import numpy as np
import pandas as pd
from .. import SPEC, tlc, par
from ..tlaparse import parse_state

LEVEL = 'model_checking'
Z_TLA = os.path.join(SPEC, 'woehleranalysis', 'MC_Zones.tla')
A_TLA = os.path.join(SPEC, 'woehleranalysis', 'AnalysisEquiv.tla')
T_TLA = os.path.join(SPEC, 'woehleranalysis', 'Trace_Analysis.tla')
T_CFG = os.path.join(SPEC, 'woehleranalysis', 'Trace_Analysis.cfg')
NAN = 1999999999


# ------------------------------------------------------------------ zones (exact part)
def zone_frame(t, labels):
    loads = [100.0 * lv for lv, fr in t]
    cyc, nf = [], 0
    for lv, fr in t:
        if fr:
            nf += 1
            cyc.append(1e4 * (5 - lv) + 137.0 * nf)
        else:
            cyc.append(1e7)
    idx = {'range': pd.RangeIndex(len(t)), 'repeated': pd.Index([i % 2 for i in range(len(t))]), 'scattered': pd.Index([17 * i % 11 + 3 for i in range(len(t))])}[labels]
    return pd.DataFrame({'load': loads, 'cycles': cyc, 'fracture': [fr for lv, fr in t]}, index=idx)


def rows_of(df):
    return sorted(zip(df.load.tolist(), df.cycles.tolist(), df.fracture.tolist()))


def _replay_zones(args):
    import pylife.materialdata.woehler  # noqa
    blocks, seed = args
    rng = random.Random(seed)
    n, nontriv, viol, samples = 0, [], [], []
    with warnings.catch_warnings():
        warnings.simplefilter('ignore')
        for b in blocks:
            st = parse_state(b.strip())
            t, out = st['t'], st['out']
            fr_cycles = {i for i, (lv, fr) in enumerate(t) if fr}
            if len(fr_cycles) < 2:
                continue        # FatigueData itself requires a variance in fracture cycles
            n += 1
            labels = ['range', 'repeated', 'scattered'][n % 3]
            df = zone_frame(t, labels)
            case = {'tests_level_fracture': [list(x) for x in t], 'row_labels': labels}
            try:
                fd = df.fatigue_data
                want_f = sorted((100.0 * t[i - 1][0], df.cycles.iloc[i - 1], True) for i in out['finite'])
                want_i = sorted((100.0 * t[i - 1][0], df.cycles.iloc[i - 1], t[i - 1][1]) for i in out['infinite'])
                if rows_of(fd.finite_zone) != want_f or rows_of(fd.infinite_zone) != want_i:
                    viol.append(('finite / infinite zone differ from the specification (zones must partition the tests)', case, {'finite': want_f, 'infinite': want_i},
                                 {'finite': rows_of(fd.finite_zone), 'infinite': rows_of(fd.infinite_zone)}))
                elif len(fd.finite_zone) + len(fd.infinite_zone) != len(df):
                    viol.append(('finite and infinite zone do not cover all tests', case, len(df), len(fd.finite_zone) + len(fd.infinite_zone)))
                tr = float(fd.finite_infinite_transition)
                if abs(tr - 100.0 * out['transition2'] / 2.0) > 1e-9:
                    viol.append(('reported finite/infinite transition differs', case, 100.0 * out['transition2'] / 2.0, tr))
                kept = df.fatigue_data.irrelevant_runouts_dropped()
                kept_df = kept._obj if hasattr(kept, '_obj') else kept
                want_k = sorted((100.0 * t[i - 1][0], df.cycles.iloc[i - 1], t[i - 1][1]) for i in out['kept'])
                if rows_of(kept_df) != want_k:
                    viol.append(('irrelevant_runouts_dropped keeps/drops other tests than pure run-out levels below all fractures', case, want_k, rows_of(kept_df)))
                # permutation of the rows changes nothing
                perm = list(range(len(t)))
                rng.shuffle(perm)
                fd2 = df.iloc[perm].fatigue_data
                if rows_of(fd2.finite_zone) != want_f or abs(float(fd2.finite_infinite_transition) - tr) > 1e-9:
                    viol.append(('zones depend on the row order', case, want_f, rows_of(fd2.finite_zone)))
            except Exception as ex:
                viol.append(('fatigue_data raised %r' % ex, case, None, None))
            if out['finite'] and out['infinite']:
                nontriv.append(tuple(t))
            if not samples and len(out['kept']) < len(t):
                samples.append({'tests_level_fracture': t, 'model': out})
    return n, nontriv, viol[:5], samples


# ------------------------------------------------------------------ estimators (metamorphic part)
def dataset(name):
    if name == 'exact':       # exactly on a Basquin line with slope 3, no run-outs
        rows = []
        for k, reps in ((10, 2), (9, 2), (8, 3)):
            for r in range(reps):
                rows.append((2.0 ** k, 2.0 ** (14 + 3 * (10 - k)), True))
        return pd.DataFrame(rows, columns=['load', 'cycles', 'fracture'])
    if name == 'exact10':     # on a Basquin line with slope 5 up to floating-point rounding (decimal loads): the residuals are ~1e-16, not exactly 0
        rows = [(L, 1e6 * (L / 300.0) ** -5.0, True) for L in (400.0, 350.0, 300.0) for r in range(3)]
        return pd.DataFrame(rows, columns=['load', 'cycles', 'fracture'])
    if name == 'flat':        # a very flat curve (k = 38) with scatter and run-outs on two mixed levels: ND SD^k is of the order 1e100 in MPa and beyond 1e308 in Pa
        rng = np.random.RandomState(777)
        rows = []
        for L, nfrac, nrun in ((300.0, 4, 0), (296.0, 4, 0), (292.0, 3, 1), (288.0, 2, 2), (284.0, 0, 4)):
            rows += [(L, float(np.round(1e6 * (L / 290.0) ** -38.0 * 10 ** rng.normal(0, 0.1))), True) for r in range(nfrac)]
            rows += [(L, 1e7, False) for r in range(nrun)]
        return pd.DataFrame(rows, columns=['load', 'cycles', 'fracture'])
    rng = np.random.RandomState(12345 if name == 'scatter' else 4711)
    rows = []
    if name == 'scatter':     # scatter, no run-outs
        for L in (512.0, 448.0, 384.0, 320.0, 288.0):
            for r in range(4):
                rows.append((L, float(np.round(2e6 * (L / 288.0) ** -5.0 * 10 ** rng.normal(0, 0.12))), True))
    elif name == 'mixed':     # run-outs at 1e7 on three mixed load levels
        for L, nfrac, nrun in ((448.0, 5, 0), (384.0, 5, 0), (352.0, 4, 1), (320.0, 3, 2), (288.0, 2, 3), (256.0, 0, 4), (224.0, 0, 3)):
            for r in range(nfrac):
                rows.append((L, float(np.round(1.5e6 * (L / 320.0) ** -6.0 * 10 ** rng.normal(0, 0.15))), True))
            for r in range(nrun):
                rows.append((L, 1e7, False))
    else:                     # 'distract': run-outs but fewer than two mixed levels
        for L, nfrac, nrun in ((400.0, 4, 0), (350.0, 4, 0), (300.0, 2, 2), (250.0, 0, 4)):
            for r in range(nfrac):
                rows.append((L, float(np.round(1e6 * (L / 300.0) ** -4.0 * 10 ** rng.normal(0, 0.1))), True))
            for r in range(nrun):
                rows.append((L, 1e7, False))
    return pd.DataFrame(rows, columns=['load', 'cycles', 'fracture'])


ANALYZERS = {'exact': ['Elementary', 'Probit'], 'exact10': ['Elementary', 'Probit'], 'flat': ['Elementary', 'Probit', 'MaxLikeInf'], 'scatter': ['Elementary', 'Probit', 'MaxLikeFull'], 'mixed': ['Elementary', 'Probit', 'MaxLikeInf', 'MaxLikeFull']}
TAU = {'Elementary': 2, 'Probit': 2, 'MaxLikeInf': 160, 'MaxLikeFull': 160}


def mlog(x):
    try:
        x = float(x)
    except Exception:
        return NAN
    if not np.isfinite(x) or x <= 0:
        return NAN
    return int(round((2 ** 20) * math.log2(x)))


def analyze(df, analyzer):
    import pylife.materialdata.woehler as W
    from pylife.materialdata.woehler.likelihood import Likelihood
    with warnings.catch_warnings():
        warnings.simplefilter('ignore')
        a = getattr(W, analyzer)(df.copy())
        wc = a.analyze()
        gain = 0
        if analyzer.startswith('MaxLike'):
            start = W.Elementary(df.copy()).analyze()
            lh = Likelihood(df.fatigue_data.irrelevant_runouts_dropped() if hasattr(df.fatigue_data.irrelevant_runouts_dropped(), 'finite_zone') else df.fatigue_data)
            try:
                if analyzer == 'MaxLikeFull':
                    g = lh.likelihood_total(wc['SD'], wc['TS'], wc['k_1'], wc['ND'], wc['TN']) - lh.likelihood_total(start['SD'], start['TS'], start['k_1'], start['ND'], start['TN'])
                else:
                    g = lh.likelihood_infinite(wc['SD'], wc['TS']) - lh.likelihood_infinite(start['SD'], 1.2)
                gain = int(round(float(g) * 1e6)) if np.isfinite(g) else 0
            except Exception:
                gain = 0
    rec = {k: mlog(wc[k]) for k in ('SD', 'ND', 'k_1', 'TN', 'TS')}
    rec['nan_scatter'] = bool(np.isnan(float(wc['TN'])) and np.isnan(float(wc['TS'])))      # the known finding is about nan; an infinite or zero scatter stays what it is (NAN sentinel -> rejected)
    return rec, gain, {k: (float(wc[k]) if np.isfinite(float(wc[k])) else str(wc[k])) for k in ('SD', 'ND', 'k_1', 'TN', 'TS')}


def _no_droppable(df):
    """The data set without its lowest pure run-out level: with a single pure run-out level the analyzers keep the fatigue data object they are given
    (irrelevant_runouts_dropped() returns it unchanged), so a transition set on it afterwards is the analyzer's transition."""
    return df[df.load > df.load.min()].reset_index(drop=True)


def _walk(args):
    ds, hist, analyzer, seed = args
    rng = random.Random(seed)
    base = dataset(ds)
    ls = cs = 0
    perm = list(range(len(base)))

    import pylife.materialdata.woehler  # noqa (registers the fatigue_data accessor)
    unit = [1.0]
    # the finite/infinite transition load of the data set in MPa (the lowest load level with a fracture resp. the estimator's start value)
    try:
        t0 = float(base.fatigue_data.finite_infinite_transition)
    except Exception:
        t0 = float(base['load'].min())
    t0 = t0 if t0 > 0 else float(base['load'].min())
    UNITS = {1: 0.145037738, 2: 0.95 / t0, 3: 1.0000001 / t0, 4: 0.987654321}

    def current():
        df = base.iloc[perm].reset_index(drop=True).copy()
        df['load'] = df['load'] * 2.0 ** ls * unit[0]
        df['cycles'] = df['cycles'] * 2.0 ** cs
        return df
    try:
        nan_seen = [False]

        def normal(rec):
            # known finding C18-exact-nan: on exactly-Basquin data the scatter comes back as nan (instead of 1) whenever the regression residual is exactly zero;
            # the walk is validated with the value the property expects (1, i.e. 0 in log units) and the finding is reported once
            if ds in ('exact', 'exact10') and rec.pop('nan_scatter'):
                nan_seen[0] = True
                rec['TN'] = rec['TS'] = 0
            rec.pop('nan_scatter', None)
            return rec
        rec, gain, raw = analyze(current(), analyzer)
        rec = normal(rec)
        tr = {'tau': TAU[analyzer], 'tauND': TAU[analyzer] if not analyzer.startswith('MaxLike') else int(TAU[analyzer] * max(1.0, float(raw['k_1']) if isinstance(raw['k_1'], float) else 1.0)), 'check_scatter': True, 'exact_slope': mlog(3.0) if ds == 'exact' else mlog(5.0) if ds == 'exact10' else 0, 'lnL_gain_micro': gain, 'start': rec, 'events': []}
        detail = [{'estimate': raw}]
        for a, arg in hist:
            if a == 'ScaleLoads':
                ls += arg
            elif a == 'ScaleCycles':
                cs += arg
            elif a == 'ChangeUnit':
                dmicro = mlog(UNITS[arg] / unit[0])
                unit[0] = UNITS[arg]
            elif a == 'Permute':
                rng.shuffle(perm)
            else:   # Distract: analyse another data set in the same process, with the same analyzer family
                try:
                    analyze(dataset('distract'), 'MaxLikeFull' if analyzer.startswith('MaxLike') else analyzer)
                except Exception:
                    pass
            rec, gain, raw = analyze(current(), analyzer)
            rec = normal(rec)
            tr['events'].append({'action': a, 'arg': arg, 'dmicro': dmicro if a == 'ChangeUnit' else 0, 'lnL_gain_micro': gain, 'obs': rec})
            detail.append({'action': [a, arg], 'load_scale': 2.0 ** ls * unit[0], 'cycle_scale': 2.0 ** cs, 'estimate': raw})
        tr['nan_scatter_seen'] = nan_seen[0]
        return tr, detail, None
    except Exception as ex:
        import traceback
        return None, None, '%r %s' % (ex, traceback.format_exc()[-500:])


def run(chk):
    quick = chk.tier == 'quick'
    res = tlc.run(Z_TLA, os.path.join(SPEC, 'woehleranalysis', 'MC_Zones_quick.cfg' if quick else 'MC_Zones_thorough.cfg'), dump=True, timeout=3000, heap='12g')
    chk.tlc('MC_Zones', res, 'finite/infinite zones partition the tests at the transition; permutation invariance; dropped run-outs')
    if res.violated:
        chk.machinery.append('model invariant %s violated: %s' % (res.violated, res.trace[-1:]))
    if res.dump_path and os.path.exists(res.dump_path):
        parts = par.split_dump(res.dump_path, 64)
        tot = 0
        for n, nontriv, viol, samples in par.pmap(_replay_zones, [(p, chk.seed * 100 + i) for i, p in enumerate(parts)], chunksize=1):
            tot += n
            for x in nontriv:
                chk.nontrivial(x)
            for s in samples[:1]:
                chk.sample(s, cap=2)
            for what, case, exp, got in viol:
                chk.violation(what, case, exp, got, part='zones')
        chk.evals(tot)
        chk.cov['traces_validated_against_impl'] += tot
        chk.part('zones', series=tot)
        os.remove(res.dump_path)
    # extension: plotting positions used by the pearl-chain / probit estimators (exact rationals)
    rres = tlc.run(os.path.join(SPEC, 'woehleranalysis', 'MC_Rossow.tla'), os.path.join(SPEC, 'woehleranalysis', 'MC_Rossow.cfg'), dump=True, timeout=600)
    chk.tlc('MC_Rossow.cfg', rres, 'extension: Rossow plotting positions increasing, symmetric, median 1/2')
    if rres.dump_path and os.path.exists(rres.dump_path):
        from fractions import Fraction
        from ..tlaparse import parse_dump
        from pylife.utils.functions import rossow_cumfreqs
        for st in parse_dump(rres.dump_path):
            got = rossow_cumfreqs(st['N'])
            want = [float(Fraction(*q)) for q in st['out']]
            chk.evals(1)
            if len(got) != len(want) or not np.allclose(got, want, rtol=1e-15, atol=0):
                chk.drift.append('rossow_cumfreqs(%d) differs from (3i-1)/(3N+1)' % st['N'])
        os.remove(rres.dump_path)
    # estimators
    res = tlc.run(A_TLA, os.path.join(SPEC, 'woehleranalysis', 'MC_AnalysisEquiv.cfg'), dump=True, timeout=600)
    chk.tlc('MC_AnalysisEquiv.cfg', res, 'walks of ScaleLoads / ScaleCycles / Permute / Distract over the data-set catalogue')
    walks = []
    if res.dump_path and os.path.exists(res.dump_path):
        for blocks in par.split_dump(res.dump_path, 1):
            for b in blocks:
                st = parse_state(b.strip())
                if len(st['hist']) == 3:
                    walks.append((st['cfg']['ds'], tuple(tuple(h) for h in st['hist'])))
        os.remove(res.dump_path)
    walks.sort()
    rng = random.Random(chk.seed * 17 + 18)
    jobs = []
    per = 6 if quick else 40
    for ds, ans in ANALYZERS.items():
        mine = [w for w in walks if w[0] == ds]
        # core walks: every action once, the very small load scale, a distraction followed by a permutation
        core = [(ds, (('ChangeUnit', 2), ('ChangeUnit', 1), ('ChangeUnit', 3))), (ds, (('ChangeUnit', 4), ('Permute', 0), ('ChangeUnit', 1))), (ds, (('ScaleLoads', 20), ('Permute', 0), ('ScaleLoads', -14))), (ds, (('ScaleLoads', 1), ('ScaleCycles', 2), ('Permute', 0))), (ds, (('ScaleLoads', -14), ('Permute', 0), ('ScaleCycles', -1))), (ds, (('Distract', 0), ('Permute', 0), ('ScaleLoads', -2)))]
        chosen = core + rng.sample(mine, min(per, len(mine)))
        for an in ans:
            for w in chosen:
                jobs.append((w[0], w[1], an, rng.randint(0, 10 ** 6)))
    results = par.pmap(_walk, jobs, chunksize=1)
    traces, meta = [], []
    for job, (tr, detail, err) in zip(jobs, results):
        chk.evals(1 + len(job[1]))
        if err:
            chk.violation('analysis raised along a walk: %s' % err, {'dataset': job[0], 'analyzer': job[2], 'actions': [list(h) for h in job[1]]}, part='walk')
            continue
        if tr.pop('nan_scatter_seen', False):
            from .. import findings as _f
            for f in _f.load('C18'):
                if f.get('match') == 'exact_nan':
                    msg = '%s: %s' % (f['id'], f['symptom'])
                    if msg not in chk.known:
                        chk.known.append(msg)
                    break
            else:
                chk.violation('exactly-Basquin data: scatter returned as nan instead of 1', {'dataset': job[0], 'analyzer': job[2]}, part='exact')
        traces.append(tr)
        meta.append((job, detail))
    # an analyzer constructed BEFORE the transition load of its fatigue data is set: analysed afterwards it answers like an analyzer constructed after
    # the setting (same data, same transition) -- the zones are those at the reported transition, and the likelihood is not below that of its start
    import pylife.materialdata.woehler as W
    from pylife.materialdata.woehler.likelihood import Likelihood
    with warnings.catch_warnings():
        warnings.simplefilter('ignore')
        for dname, x in (('mixed', 304.0), ('mixed', 368.0), ('mixed', 400.0)):
            for an_name in ('Elementary', 'Probit', 'MaxLikeInf', 'MaxLikeFull'):
                chk.evals(1)
                def run_early():
                    fd1 = _no_droppable(dataset(dname)).fatigue_data
                    early = getattr(W, an_name)(fd1)
                    fd1.set_finite_infinite_transition(x)
                    return early.analyze()

                def run_fresh():
                    fd2 = _no_droppable(dataset(dname)).fatigue_data
                    fd2.set_finite_infinite_transition(x)
                    return getattr(W, an_name)(fd2).analyze()
                res = []
                for fn in (run_early, run_fresh):
                    try:
                        r = fn()
                        res.append({k: float(r[k]) for k in ('SD', 'ND', 'k_1', 'TN', 'TS')})
                    except Exception as ex:
                        res.append('raised %s: %s' % (type(ex).__name__, str(ex)[:80]))
                r1, r2 = res
                if isinstance(r1, str) or isinstance(r2, str):
                    same = r1 == r2          # a data set the analyzer refuses (e.g. fewer than two mixed levels below the transition) is refused either way
                else:
                    same = all((np.isnan(r1[k]) and np.isnan(r2[k])) or abs(r1[k] - r2[k]) <= 1e-9 * abs(r2[k]) for k in r2)
                if not same:
                    chk.violation('an analyzer constructed before set_finite_infinite_transition() answers differently from one constructed after it (zones frozen at construction)',
                                  {'dataset': dname + ' without its lowest pure run-out level', 'analyzer': an_name, 'transition': x}, r2, r1, part='held_analyzer')
                elif not isinstance(r1, str):
                    chk.nontrivial(('held_analyzer', dname, an_name, x))
    from .. import findings
    fs = findings.load('C18')
    acc = 0
    pending = list(zip(traces, meta))
    for rnd in range(2):
        if not pending:
            break
        out = tlc.validate_traces(T_TLA, T_CFG, [p[0] for p in pending], 'c18_%d' % rnd, nsplit=4)
        chk.cov['states'] += out['states']
        chk.cov['transitions'] += out['generated']
        chk.part('trace_validation', walks=len(pending) if rnd == 0 else 0, tlc_states=out['states'], wall_s=round(out['wall'], 1))
        for e in out['errors']:
            chk.machinery.append('trace validation: ' + e)
        nxt = []
        for (tr, (job, detail)), v in zip(pending, out['verdicts']):
            if v is None:
                if not out['errors']:
                    chk.machinery.append('no verdict for %s' % (job[:3],))
                continue
            steps, clause = v[0], v[1]
            if clause == 'ok':
                acc += 1
                chk.nontrivial((job[0], job[1], job[2]))
                continue
            f = None      # (a nan scatter on exact data is normalised when the walk is recorded and reported under C18-exact-nan; any other non-positive / infinite scatter is rejected here)
            if f:
                msg = '%s: %s' % (f['id'], f['symptom'])
                if msg not in chk.known:
                    chk.known.append(msg)
                nxt.append(({**tr, 'check_scatter': False}, (job, detail)))      # the rest of the walk is still validated
                continue
            chk.violation('analysis walk rejected by the trace specification: %s at step %d' % (clause, steps),
                          {'dataset': job[0], 'analyzer': job[2], 'actions': [list(h) for h in job[1]], 'before': detail[max(0, steps - 1)], 'after': detail[min(steps, len(detail) - 1)]}, None, None, part='trace')
        pending = nxt
    chk.cov['traces_validated_against_impl'] += acc
    if traces:
        chk.sample({'dataset': meta[0][0][0], 'analyzer': meta[0][0][2], 'walk': [list(h) for h in meta[0][0][1]], 'trace': traces[0]}, cap=3)
    chk.cov['rule'] = ('Zones: TLC enumerates every test series of 2..MaxTests tests over 4 load levels with fracture flags (all row orders are distinct series) and proves partition / split / permutation '
                       'invariance; each is replayed into df.fatigue_data with three kinds of row labels (incl. repeated labels). Estimators: walks of ScaleLoads(2^d) / ScaleCycles(2^d) / Permute / Distract '
                       'over an exact Basquin data set, a scattered one and one with mixed run-out levels, for Elementary, Probit, MaxLikeInf, MaxLikeFull; every recorded step is decided by Trace_Analysis.tla '
                       '(closed-form estimators at 1.3e-6, Nelder-Mead based ones at 1e-4; exact recovery of slope/scatter; likelihood ordering). Non-trivial: series with both zones non-empty; accepted walks.')
    chk.cov['rule'] += ' Data sets: exact (2^k), exact10 (decimal), scatter, flat (k ~ 50, run-outs), mixed (two pure run-out levels); actions incl. ScaleLoads(2^20) and ChangeUnit (ksi, knee at 0.95 / 1.0000001, a 9-digit factor).'
    chk.cov['exhaustive'] = False
    chk.assumptions += ['estimators are covered by validated metamorphic walks on a small data-set catalogue (weaker than the exhaustive zone check)',
                        'MaxLike relations claimed at 1e-4 only (simplex termination, not rounding, limits reproducibility)']


def replay(chk, path):
    print(open(path).read())
    return 0

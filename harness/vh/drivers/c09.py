"""C09 — FKM-nonlinear damage curves, P_RAM parameter, P_RAM accumulation, load safety factors."""
import os, warnings
from fractions import Fraction
import numpy as np
import pandas as pd
from .. import SPEC, tlc
from ..tlaparse import parse_dump

LEVEL = 'model_checking'
TLA = os.path.join(SPEC, 'fkmnl', 'MC_FKMNL.tla')
INF = 1000000
Z = 512.0
PA_OF_BETA = {5200: 1e-7, 4750: 1e-6, 4270: 1e-5, 3800: 7.2e-5, 3090: 1e-3, 739: 2.3e-1, 0: 0.5}


def close(a, b, rel=1e-9):
    a, b = np.asarray(a, dtype=np.float64), np.asarray(b, dtype=np.float64)
    if a.shape != b.shape:
        return False
    fin = np.isfinite(b)
    return bool(np.array_equal(np.isfinite(a), fin) and np.all(np.abs(a[fin] - b[fin]) <= rel * np.maximum(np.abs(b[fin]), 1e-300)))


def check(st):
    import pylife.strength.woehler_fkm_nonlinear  # noqa
    import pylife.strength.fkm_load_distribution  # noqa
    from pylife.strength.damage_parameter import P_RAM
    from pylife.strength.fkm_nonlinear.damage_calculator import DamageCalculatorPRAM
    part, inp, out = st['part'], st['inp'], st['out']
    v = []
    with warnings.catch_warnings():
        warnings.simplefilter('ignore')
        try:
            if part == 'curve_ram':
                m1, m2 = inp['m']
                wc = pd.Series({'P_RAM_Z': Z, 'P_RAM_D': Z * 2.0 ** -inp['jd'], 'd_1': -1.0 / m1, 'd_2': -1.0 / m2}).woehler_P_RAM
                P = Z * 2.0 ** inp['j']
                want = np.inf if out['e'] == INF else 1000.0 * 2.0 ** out['e']
                case = {'P_RAM_Z': Z, 'P_RAM_D': Z * 2.0 ** -inp['jd'], 'd_1': -1.0 / m1, 'd_2': -1.0 / m2, 'P_RAM': P}
                got = float(wc.calc_N(P))
                if not close(got, want):
                    v.append(('P_RAM curve: cycles for parameter differ', case, want, got))
                if np.isfinite(want):
                    back = float(wc.calc_P_RAM(want))
                    if not close(back, P):
                        v.append(('P_RAM curve: calc_P_RAM(calc_N(P)) != P', case, P, back))
                    arr = np.asarray(wc.calc_N(np.array([P, 2 * P])), dtype=np.float64)
                    if not (close(arr[0], want) and (not np.isfinite(arr[1]) or arr[1] < arr[0])):
                        v.append(('P_RAM curve: not strictly decreasing / array form differs', case, want, arr.tolist()))
                else:
                    if not close(float(wc.calc_P_RAM(1e307)), Z * 2.0 ** -inp['jd']):
                        v.append(('P_RAM curve: parameter for N -> inf is not the endurance value', case, Z * 2.0 ** -inp['jd'], float(wc.calc_P_RAM(1e307))))
            elif part == 'curve_raj':
                m = inp['m']
                wc = pd.Series({'P_RAJ_Z': Z, 'P_RAJ_D_0': Z * 2.0 ** -inp['jd0'], 'd_RAJ': -1.0 / m}).woehler_P_RAJ
                wc.update_P_RAJ_D(Z * 2.0 ** -inp['jcur'])
                P = Z * 2.0 ** inp['j']
                want = np.inf if out['e'] == INF else 2.0 ** out['e']
                case = {'P_RAJ_Z': Z, 'P_RAJ_D_0': Z * 2.0 ** -inp['jd0'], 'P_RAJ_D': Z * 2.0 ** -inp['jcur'], 'd_RAJ': -1.0 / m, 'P_RAJ': P}
                got = float(wc.calc_N(P))
                if not close(got, want):
                    v.append(('P_RAJ curve: cycles for parameter differ', case, want, got))
                if np.isfinite(want) and inp['j'] > -inp['jd0']:
                    back = float(wc.calc_P_RAJ(want))
                    if not close(back, P):
                        v.append(('P_RAJ curve: calc_P_RAJ(calc_N(P)) != P', case, P, back))
            elif part == 'pram':
                for grp, rm, Es in (('Steel', 1000.0, (206000.0, 210000.0)), ('Al_wrought', 290.0, (70000.0, 72000.0))):
                    for E in Es:
                        eps = 3.0 / 2048
                        coll = pd.DataFrame({'S_a': [float(inp['sa'])], 'S_m': [float(inp['sm'])], 'epsilon_a': [eps]})
                        ap = pd.Series({'MatGroupFKM': grp, 'R_m': rm, 'E': E})
                        got = float(P_RAM(coll, ap).collective['P_RAM'].iloc[0])
                        want = 0.0 if out['disc144'] < 0 else float(np.sqrt(out['disc144'] / 144.0 * eps * E))
                        if not close(got, want, 1e-12) and not (want == 0.0 and got == 0.0):
                            v.append(('P_RAM of a hysteresis is not sqrt((S_a + k S_m) eps_a E) / zero rule', {'S_a': inp['sa'], 'S_m': inp['sm'], 'epsilon_a': eps, 'E': E, 'MatGroupFKM': grp, 'R_m': rm}, want, got))
                # the guideline's mean-stress factor for other material groups / tensile strengths, incl. those with a NEGATIVE mean stress
                # sensitivity (steel below R_m = 286 MPa): k = M (M + 2) for S_m >= 0, M/3 (M/3 + 2) for S_m < 0, P_RAM = 0 if S_a + k S_m < 0
                for grp, rm, aM, bM in (('Steel', 200.0, 0.35, -0.1), ('Steel', 120.0, 0.35, -0.1), ('SteelCast', 400.0, 0.35, 0.05), ('Al_wrought', 30.0, 1.0, -0.04), ('Al_wrought', 450.0, 1.0, -0.04)):
                    M = aM * 1e-3 * rm + bM
                    k = M * (M + 2) if inp['sm'] >= 0 else M / 3 * (M / 3 + 2)
                    disc = inp['sa'] + k * inp['sm']
                    eps, E = 3.0 / 2048, 206000.0
                    coll = pd.DataFrame({'S_a': [float(inp['sa'])], 'S_m': [float(inp['sm'])], 'epsilon_a': [eps]})
                    got = float(P_RAM(coll, pd.Series({'MatGroupFKM': grp, 'R_m': rm, 'E': E})).collective['P_RAM'].iloc[0])
                    want = float(np.sqrt(disc * eps * E)) if disc >= 0 else 0.0
                    if not (close(got, want, 1e-12) or (want == 0.0 and got == 0.0)):
                        v.append(('P_RAM of a hysteresis is not sqrt((S_a + k S_m) eps_a E) / zero rule', {'S_a': inp['sa'], 'S_m': inp['sm'], 'epsilon_a': eps, 'E': E, 'MatGroupFKM': grp, 'R_m': rm, 'M_sigma': M}, want, got))
            elif part == 'accumulate':
                rows = inp['rows']
                P = [Z * 2.0 ** (-e // 2) if e <= 0 else Z * 2.0 ** (-e) for e, c, r in rows]
                coll = pd.DataFrame({'P_RAM': P, 'is_closed_hysteresis': [c for e, c, r in rows], 'run_index': [r for e, c, r in rows], 'S_min': [0.0] * len(rows)})
                wc = pd.Series({'P_RAM_Z': Z, 'P_RAM_D': Z / 2.0 ** 20, 'd_1': -0.5, 'd_2': -1.0}).woehler_P_RAM
                dc = DamageCalculatorPRAM(coll, wc)
                times = float(np.asarray(dc.lifetime_n_times_load_sequence))
                cyc = float(np.asarray(dc.lifetime_n_cycles))
                wt = float(Fraction(*out['times']))
                wcyc = float(Fraction(*out['cycles']))
                case = {'rows_N_closed_run': [(1000.0 * 2.0 ** e, c, r) for e, c, r in rows]}
                if not close(times, wt, 1e-10):
                    v.append(('P_RAM lifetime in repetitions differs from literal accumulation (first pass once, second pass repeatedly, half hystereses half)', case, wt, times))
                if not close(cyc, wcyc, 1e-10):
                    v.append(('P_RAM lifetime in cycles differs from literal accumulation', case, wcyc, cyc))
            elif part == 'safety':
                loads = pd.Series([100.0, -250.0, 50.0])
                pl = 2.5 if inp['pl'] == 25 else 50.0
                pa = PA_OF_BETA[inp['beta']]
                aps = out['alpha_per_s'] * 1e-4
                for s in (10.0, 0.0):
                    g = float(loads.fkm_safety_normal_from_stddev.gamma_L(pd.Series({'P_A': pa, 'P_L': pl, 's_L': s})))
                    if not close(g, (250.0 + aps * s) / 250.0, 1e-12):
                        v.append(('normal load safety factor differs from (L_max + alpha)/L_max', {'P_A': pa, 'P_L': pl, 's_L': s}, (250.0 + aps * s) / 250.0, g))
                for s in (0.05, 0.3):
                    g = float(loads.fkm_safety_lognormal_from_stddev.gamma_L(pd.Series({'P_A': pa, 'P_L': pl, 'LSD_s': s})))
                    want = 1.0 if out['clipped'] else 10.0 ** (aps * s)
                    if not close(g, want, 1e-12):
                        v.append(('log-normal load safety factor differs from max(1, 10^alpha)', {'P_A': pa, 'P_L': pl, 'LSD_s': s}, want, g))
                g = float(loads.fkm_safety_blanket.gamma_L(pd.Series({'P_L': pl})))
                if g != (1.1 if inp['pl'] == 25 else 1.0):
                    v.append(('blanket load safety factor wrong', {'P_L': pl}, 1.1 if inp['pl'] == 25 else 1.0, g))
        except Exception as ex:
            v.append(('raised %r' % ex, {'part': part, 'inp': inp}, None, None))
    return v


def check_batches(chk, acc_states, quick):
    """Two assessment points in one DamageCalculatorPRAM: point B carries the hystereses of point A at half the damage parameter
    (every N exponent + 2, itself a state of the model).  Each point must get the lifetime the model gives it alone, in both point orders."""
    import pylife.strength.woehler_fkm_nonlinear  # noqa
    from fractions import Fraction
    from pylife.strength.fkm_nonlinear.damage_calculator import DamageCalculatorPRAM
    pairs = []
    for rows in sorted(acc_states):
        shifted = tuple((e + 2, c, r) for e, c, r in rows)
        if shifted in acc_states and all(e <= -4 for e, c, r in rows):
            pairs.append((rows, shifted))
    step = max(1, len(pairs) // (150 if quick else 1500))
    n = 0
    wc = pd.Series({'P_RAM_Z': Z, 'P_RAM_D': Z / 2.0 ** 20, 'd_1': -0.5, 'd_2': -1.0}).woehler_P_RAM
    with warnings.catch_warnings():
        warnings.simplefilter('ignore')
        for rows_a, rows_b in pairs[::step]:
            for order in ((rows_a, rows_b), (rows_b, rows_a)):
                n += 1
                recs = []
                for hi in range(len(rows_a)):
                    for pi, rows in enumerate(order):
                        e, c, r = rows[hi]
                        recs.append({'hysteresis_index': hi, 'assessment_point_index': pi, 'P_RAM': Z * 2.0 ** (-e // 2) if e <= 0 else Z * 2.0 ** (-e),
                                     'is_closed_hysteresis': c, 'run_index': r, 'S_min': 0.0})
                coll = pd.DataFrame(recs).set_index(['hysteresis_index', 'assessment_point_index'])
                case = {'points_rows_Nexp_closed_run': [list(map(list, rows)) for rows in order]}
                try:
                    dc = DamageCalculatorPRAM(coll, wc)
                    times = np.atleast_1d(np.asarray(dc.lifetime_n_times_load_sequence, dtype=np.float64))
                    cyc = np.atleast_1d(np.asarray(dc.lifetime_n_cycles, dtype=np.float64))
                    for pi, rows in enumerate(order):
                        o = acc_states[rows]
                        wt, wcy = float(Fraction(*o['times'])), float(Fraction(*o['cycles']))
                        if not (close(times[pi], wt, 1e-10) and close(cyc[pi], wcy, 1e-10)):
                            chk.violation('P_RAM lifetime of a point assessed together with another point differs from its literal accumulation', {**case, 'point': pi}, [wt, wcy], [float(times[pi]), float(cyc[pi])], part='accumulate_batch')
                            break
                    else:
                        chk.nontrivial(('acc_batch', order[0], order[1]))
                except Exception as ex:
                    chk.violation('DamageCalculatorPRAM raised %r for two assessment points' % ex, case, part='accumulate_batch')
    chk.part('accumulate_batch', batches=n, candidate_pairs=len(pairs))
    return n


def run(chk):
    quick = chk.tier == 'quick'
    cfgname = 'MC_FKMNL_quick.cfg' if quick else 'MC_FKMNL_thorough.cfg'
    res = tlc.run(TLA, os.path.join(SPEC, 'fkmnl', cfgname), dump=True, timeout=2400)
    chk.tlc(cfgname, res, 'component curves (inverse, decreasing, knees, endurance), P_RAM zero rule, accumulation as coded = literal accumulation, safety clip')
    if res.violated:
        chk.machinery.append('model invariant %s violated: %s' % (res.violated, res.trace[-1:]))
    n = 0
    seen = set()
    acc_states = {}
    if res.dump_path and os.path.exists(res.dump_path):
        for st in parse_dump(res.dump_path):
            n += 1
            if st['part'] == 'accumulate':
                acc_states[tuple(tuple(r) for r in st['inp']['rows'])] = st['out']
            for what, case, exp, got in check(st)[:2]:
                chk.violation(what, case, exp, got, part=st['part'])
            if st['part'] == 'accumulate' and not st['out']['early'] and any(not r[1] for r in st['inp']['rows']):
                chk.nontrivial(('acc', tuple(st['inp']['rows'])))
            elif st['part'] != 'accumulate':
                chk.nontrivial((st['part'], repr(sorted(st['inp'].items()))))
            if st['part'] not in seen and (st['part'] != 'accumulate' or len(st['inp']['rows']) >= 3):
                seen.add(st['part'])
                chk.sample({'part': st['part'], 'input': st['inp'], 'model_output': st['out']}, cap=6)
        os.remove(res.dump_path)
        n += check_batches(chk, acc_states, quick)
    chk.evals(n)
    chk.cov['traces_validated_against_impl'] = n
    # compute_beta: not a model-checking result (real function); reported separately
    from pylife.strength.fkm_nonlinear.parameter_calculations import compute_beta
    from scipy import stats
    worst = 0.0
    for pa in [1e-7, 1e-6, 1e-5, 7.2e-5, 1e-3, 0.01, 0.1, 0.23, 0.4, 0.5]:
        try:
            b = compute_beta(pa)
            worst = max(worst, abs(b + stats.norm.ppf(pa)))
            chk.evals(1)
            if abs(b + stats.norm.ppf(pa)) > 1e-6:
                chk.violation('safety index is not the negative standard-normal quantile', {'P_A': pa}, float(-stats.norm.ppf(pa)), float(b), part='beta')
        except Exception as ex:
            chk.violation('compute_beta raised %r' % ex, {'P_A': pa}, part='beta')
    # the safety index is a function of P_A alone: far-tail probabilities, asked in different orders within one process
    import math
    sweep = [10.0 ** (-12 + 0.2 * k) for k in range(0, 58)] + [1.2e-10, 1.4e-10, 3e-11, 4e-11, 0.5]
    # probabilities below 1e-12 (1 - P_A is no longer representable there: a quantile taken at the complement shows) and above 1/2 (negative index)
    sweep += [10.0 ** (-k) for k in range(13, 101)] + [3e-14, 7e-17, 0.6, 0.9, 0.99]
    for order in (sorted(sweep), sorted(sweep, reverse=True), sweep[::3] + sweep[1::3] + sweep[2::3]):
        for pa in order:
            try:
                b = float(compute_beta(pa))
                chk.evals(1)
                want = float(-stats.norm.ppf(pa))
                worst = max(worst, abs(b - want))
                if abs(b - want) > 1e-6 + 1e-6 * abs(want):
                    chk.violation('safety index is not the negative standard-normal quantile (far tail / call history)', {'P_A': pa}, want, b, part='beta')
                    break
            except Exception as ex:
                chk.violation('compute_beta raised %r' % ex, {'P_A': pa}, part='beta')
                break
    chk.part('compute_beta', probabilities=10, worst_abs_error=worst, note='numeric spot check only; outside the TLA+ lattice (DESIGN 6)')
    chk.cov['rule'] = ('TLC enumerates five sub-lattices: P_RAM curve (4 slope pairs incl. |d_2| > |d_1|, 3 endurance positions, P = P_Z 2^j), P_RAJ curve with updated endurance value, '
                       'P_RAM parameter (S_a x S_m sign/zero cases at M_sigma = 1/4), hysteresis tables of up to MaxRows rows (closed/half, pass 1/2, N = 1000*2^e) for the accumulation, '
                       'and (beta, P_L) for the safety factors; every state is evaluated through the real accessors / classes with exact expectation. '
                       'Non-trivial: accumulation tables with a half hysteresis and no early failure; every other lattice point.')
    chk.cov['rule'] += ' Accumulation tables allow half hystereses in both passes; very flat curves (|d| = 0.004); two-point batches (point B = point A at half the damage parameter, both orders); compute_beta swept over 1e-100..0.99 in three call orders.'
    chk.cov['exhaustive'] = True
    chk.assumptions += ['compute_beta (root search of the normal CDF) is only spot-checked numerically: no lattice exists for it',
                        'P_RAJ damage accumulation (crack opening loop) is not modelled; it is exercised through C10']


def replay(chk, path):
    print(open(path).read())
    return 0

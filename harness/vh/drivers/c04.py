"""C04 — second HCM pass counts exactly the steady-state hystereses of the sequence."""
import os, random
from collections import Counter
import numpy as np
from .. import SPEC, tlc, par, hcm, findings
from ..tlaparse import parse_state

LEVEL = 'model_checking'
TLA = os.path.join(SPEC, 'hcm', 'MC_HCM.tla')
TRACE_TLA = os.path.join(SPEC, 'hcm', 'Trace_HCM.tla')


def code_rows(seq, law='lin'):
    try:
        det = hcm.two_pass(seq, law)
        return hcm.project(det)
    except Exception as ex:
        return {'raised': repr(ex)}


UNIT = 2.0 ** -30      # a second load unit (exact dyadic factor): every step of the integer lattice is then far below 1e-8 and far above 1e-12


def code_rows_unit(seq, unit=UNIT):
    """The same history expressed in another load unit; rows are brought back to the integer lattice (exact)."""
    try:
        det = hcm.two_pass([unit * float(x) for x in seq], 'lin')
        c = det.recorder.collective
        rows = []
        for i in range(len(c)):
            lo, hi = float(c['loads_min'].iloc[i]) / unit, float(c['loads_max'].iloc[i]) / unit
            rows.append({'loads_min': int(lo) if lo == int(lo) else lo, 'loads_max': int(hi) if hi == int(hi) else hi,
                         'closed': bool(c['is_closed_hysteresis'].iloc[i]), 'run': int(c['run_index'].iloc[i])})
        return {'rows': rows}
    except Exception as ex:
        return {'raised': repr(ex)}


def code_rows_noisy(seq):
    """The same history in tenths of the unit, each sample computed along another route (x/10, x*0.1, (x+7)*0.1-0.7): equal loads differ by rounding noise
    (~1e-16), far below the detector's 1e-12; rows are brought back to the integer lattice by rounding."""
    try:
        vals = [x / 10.0 if i % 3 == 0 else (x * 0.1 if i % 3 == 1 else (x + 7) * 0.1 - 0.7) for i, x in enumerate(seq)]
        det = hcm.two_pass(vals, 'lin')
        c = det.recorder.collective
        rows = [{'loads_min': int(round(float(c['loads_min'].iloc[i]) * 10.0)), 'loads_max': int(round(float(c['loads_max'].iloc[i]) * 10.0)),
                 'closed': bool(c['is_closed_hysteresis'].iloc[i]), 'run': int(c['run_index'].iloc[i])} for i in range(len(c))]
        # a plateau of the exact history is a run of tiny reversals in the noisy one: its hystereses of range ~1e-16 are real (and round to min = max); they are set aside
        return {'rows': [r for r in rows if r['loads_min'] != r['loads_max']]}
    except Exception as ex:
        return {'raised': repr(ex)}


def code_rows_dtype(seq, dtype):
    """The same (non-negative) history handed over as an integer array of the given dtype (raw counts of an acquisition system)."""
    try:
        det = hcm.new_detector(hcm.ExactLaw('lin'))
        det.process_hcm_first(np.asarray(seq, dtype=dtype))
        det.process_hcm_second(np.asarray(seq, dtype=dtype))
        return hcm.project(det)
    except Exception as ex:
        return {'raised': repr(ex)}


def c04_verdict(p, per):
    """Property-level predicate D on the observed recorder content. per = list of (min,max) of the periodic rainflow."""
    if 'raised' in p:
        return 'raised ' + p['raised']
    second = [(r['loads_min'], r['loads_max']) for r in p['rows'] if r['run'] == 2]
    if Counter(second) != Counter(tuple(x) for x in per):
        return 'second-pass hystereses are not the closed cycles of the repeated sequence'
    if any(not r['closed'] for r in p['rows'] if r['run'] == 2):
        return 'half (Memory 3) hysteresis in the second pass'
    for r in p['rows']:
        if not r['closed'] and (r['run'] != 1 or r['loads_min'] != -r['loads_max']):
            return 'Memory 3 hysteresis not in first pass / not symmetric about zero'
    return None


def periodic_py(seq):
    """Independent python mirror of HCMNL!Periodic, used for recorded sequences' refinement relation only."""
    n = len(seq)
    s = [seq[i] for i in range(n) if seq[i] != seq[i - 1]]   # cyclic dedupe
    if len(s) < 2:
        return []
    m = len(s)
    r = [s[i] for i in range(m) if (s[i] - s[i - 1]) * (s[(i + 1) % m] - s[i]) < 0]
    k = max(range(len(r)), key=lambda i: (abs(r[i]), -i))
    rr = r[k:] + r[:k] + [r[k]]
    cyc = []
    i = 0
    t = rr
    while True:
        found = False
        for i in range(len(t) - 3):
            if abs(t[i + 1] - t[i + 2]) <= abs(t[i] - t[i + 1]) and abs(t[i + 1] - t[i + 2]) <= abs(t[i + 2] - t[i + 3]):
                cyc.append((min(t[i + 1], t[i + 2]), max(t[i + 1], t[i + 2])))
                t = t[:i + 1] + t[i + 3:]
                found = True
                break
        if not found:
            break
    cyc.append((min(r), max(r)))
    return cyc


def non_reversal_insertions(seq, rng, k):
    """Refinements by samples that are not reversals of the REPEATED sequence (interior, leading, trailing, junction)."""
    n = len(seq)
    out = []
    for _ in range(k):
        p = rng.randint(0, n)        # insert before position p (p == n: append)
        a = seq[p - 1] if p > 0 else seq[-1]      # predecessor in the repeated sequence
        b = seq[p] if p < n else seq[0]           # successor in the repeated sequence
        lo, hi = min(a, b), max(a, b)
        v = rng.randint(lo, hi)
        out.append(list(seq[:p]) + [v] + list(seq[p:]))
    return out


def _replay_blocks(blocks):
    n, nontriv, drift, viol, samples = 0, [], [], [], []
    for b in blocks:
        st = parse_state(b.strip())
        s, out, per = st['s'], st['out'], st['per']
        if not per:
            continue
        n += 1
        p = code_rows(s)
        bad = c04_verdict(p, per)
        case = {'sequence': list(s)}
        if bad:
            viol.append((bad, case, {'periodic_cycles': sorted(per)},
                         [(r['loads_min'], r['loads_max'], r['closed'], r['run']) for r in p.get('rows', [])] if 'rows' in p else p))
        else:
            got = [(r['loads_min'], r['loads_max'], r['closed'], r['run']) for r in p['rows']]
            exp = [(w['lmin'], w['lmax'], w['closed'], w['run']) for w in out['rows']]
            if got != exp:
                drift.append('sequence %s: recorder rows %s, model %s (C04 predicate holds on both)' % (list(s), got, exp))
        if n % 3 == 0 and not bad:
            # ScaleInvariantDecisions (MC_HCM): the proportional history in a 2^30 times larger load unit counts the same hystereses
            pu = code_rows_unit(s)
            badu = c04_verdict(pu, per)
            if badu:
                viol.append((badu + ' (loads expressed in a 2^30 times larger unit)', {'sequence': list(s), 'load_unit_factor': UNIT}, {'periodic_cycles': sorted(per)},
                             [(r['loads_min'], r['loads_max'], r['closed'], r['run']) for r in pu.get('rows', [])] if 'rows' in pu else pu))
        if n % 4 == 1 and not bad and max(abs(x) for x in s) < 1000:
            pn = code_rows_noisy(s)
            badn = c04_verdict(pn, per)
            if badn:
                viol.append((badn + ' (loads in tenths, equal loads differing by rounding noise of 1e-16)', {'sequence_times_10': list(s), 'routes': 'x/10, x*0.1, (x+7)*0.1-0.7 by position'},
                             {'periodic_cycles': sorted(per)}, [(r['loads_min'], r['loads_max'], r['closed'], r['run']) for r in pn.get('rows', [])] if 'rows' in pn else pn))
        if n % 2 == 0 and not bad and min(s) >= 0 and max(s) < 200:
            for dt in (np.uint8, np.uint16, np.int32):
                pdt = code_rows_dtype(s, dt)
                badd = c04_verdict(pdt, per)
                if badd:
                    viol.append((badd + ' (loads handed over as a %s array)' % np.dtype(dt).name, {'sequence': list(s), 'dtype': np.dtype(dt).name}, {'periodic_cycles': sorted(per)},
                                 [(r['loads_min'], r['loads_max'], r['closed'], r['run']) for r in pdt.get('rows', [])] if 'rows' in pdt else pdt))
                    break
        if n % 5 == 0 and not bad:
            # the same history for two proportional points at once, load steps labelled in DEScending order and node ids not ascending:
            # what is counted for a point must not depend on the labels
            try:
                det = hcm.two_pass_multi(s, [1, 2], 'lin', node_ids=[5, 3], labels=list(range(len(s)))[::-1])
                pm = hcm.project(det, 2)
                for pt, sc in ((0, 1), (1, 2)):
                    rows = [{'loads_min': r['loads_min'][pt] // sc if r['loads_min'][pt] % sc == 0 else r['loads_min'][pt] / sc,
                             'loads_max': r['loads_max'][pt] // sc if r['loads_max'][pt] % sc == 0 else r['loads_max'][pt] / sc,
                             'closed': r['closed'][pt], 'run': r['run'][pt]} for r in pm['rows']]
                    badm = c04_verdict({'rows': rows}, per)
                    if badm:
                        viol.append((badm + ' (two proportional points at once, load steps labelled in descending order)', {'sequence': list(s), 'point': pt, 'load_step_labels': list(range(len(s)))[::-1]},
                                     {'periodic_cycles': sorted(per)}, [(r['loads_min'], r['loads_max'], r['closed'], r['run']) for r in rows]))
                        break
            except Exception as ex:
                viol.append(('two-point two-pass run raised %r' % ex, {'sequence': list(s)}, None, None))
        if len(per) >= 2:
            nontriv.append(s)
        if not samples and len(per) >= 3:
            samples.append({'sequence': s, 'periodic_cycles': per, 'model_rows': [(w['lmin'], w['lmax'], w['closed'], w['run']) for w in out['rows']]})
    return n, nontriv, drift[:5], viol[:8], samples


def record_two_pass(seq, law='lin'):
    """Trace of the real detector: after each of the two calls the whole recorder content + strain list."""
    det = hcm.new_detector(hcm.ExactLaw(law))
    arr = np.asarray(seq, dtype=np.float64)
    ev = []
    for call in ('first', 'second'):
        (det.process_hcm_first if call == 'first' else det.process_hcm_second)(arr)
        p = hcm.project(det)
        ev.append({'call': call, 'samples': [int(x) for x in seq], 'flush': False,
                   'rows': [{'lmin': r['loads_min'], 'lmax': r['loads_max'], 'smin': r['S_min'], 'smax': r['S_max'],
                             'emin': r['epsilon_min'], 'emax': r['epsilon_max'], 'eminLF': r['epsilon_min_LF'], 'emaxLF': r['epsilon_max_LF'],
                             'closed': r['closed'], 'zero': r['zero'], 'run': r['run']} for r in p['rows']],
                   'strains': p['strains'], 'nfirst': len(p['strains_first'])})
    return {'law': law, 'events': ev}, p


def random_sequence(rng, n, amp):
    while True:
        mode = rng.random()
        if mode < 0.5:
            s = [rng.randint(-amp, amp) for _ in range(n)]
        else:
            s, v = [], rng.randint(-amp, amp)
            while len(s) < n:
                step = rng.choice([-3, -2, -1, 0, 1, 2, 3])
                for _ in range(rng.randint(1, 3)):
                    v = max(-amp, min(amp, v + step))
                    s.append(v)
            s = s[:n]
        if len(set(s)) >= 2:
            return s


def match_known(fs, case, what):
    for f in fs:
        if f.get('match_sequence') and list(case.get('sequence', [])) == f['match_sequence']:
            return f
    return None


def run(chk):
    quick = chk.tier == 'quick'
    cfgs = ['MC_HCM_quick.cfg', 'MC_HCM_quick2.cfg'] if quick else ['MC_HCM_thorough.cfg', 'MC_HCM_thorough2.cfg', 'MC_HCM_thorough3.cfg']
    for cfgname in cfgs:
        res = tlc.run(TLA, os.path.join(SPEC, 'hcm', cfgname), dump=True, timeout=3000, heap='12g')
        chk.tlc(cfgname, res, 'every load sequence through both passes; SecondPass = Periodic, Memory3, counters')
        if res.violated:
            st = res.trace[-1] if res.trace else {}
            s = st.get('s')
            # DESIGN 3.4 case 3: model says I != D; does the real code behave like I ?
            p = code_rows(s) if s else {}
            bad = c04_verdict(p, st.get('per', [])) if s else 'unknown'
            if bad:
                chk.violation('model counterexample reproduced on the code: ' + bad, {'sequence': list(s)}, st.get('per'), p.get('rows'), part='model')
            else:
                chk.machinery.append('model invariant %s violated for %s but the code satisfies C04 there: specification is wrong' % (res.violated, s))
        if res.dump_path and os.path.exists(res.dump_path):
            parts = par.split_dump(res.dump_path, 64)
            total = 0
            for n, nontriv, drift, viol, samples in par.pmap(_replay_blocks, parts, chunksize=1):
                total += n
                for k in nontriv:
                    chk.nontrivial(k)
                chk.drift += drift
                for s in samples[:1]:
                    chk.sample(s, cap=2)
                for what, case, exp, got in viol:
                    chk.violation(what, case, exp, got, part='replay')
            chk.cov['traces_validated_against_impl'] += total
            chk.evals(total)
            chk.part('replay_' + cfgname, sequences_replayed=total)
            os.remove(res.dump_path)
    # reversal-only sequences (every interior sample a reversal) over -3..3 up to 8 (9) samples: the same invariants, deeper HCM memory;
    # quick replays a fixed twentieth of the sequences with at least 7 samples, thorough an eighth (TLC checks the invariants on all of them)
    cfgname = 'MC_HCM_rev_quick.cfg' if quick else 'MC_HCM_rev_thorough.cfg'
    res = tlc.run(TLA, os.path.join(SPEC, 'hcm', cfgname), dump=True, timeout=3000, heap='12g')
    chk.tlc(cfgname, res, 'strictly alternating load sequences over -3..3; SecondPass = Periodic, Memory3, counters')
    if res.violated:
        st = res.trace[-1] if res.trace else {}
        chk.machinery.append('model invariant %s violated for %s (reversal-only instance)' % (res.violated, st.get('s')))
    if res.dump_path and os.path.exists(res.dump_path):
        parts = par.split_dump(res.dump_path, 64)
        sel = []
        k = 0
        for blocks in parts:
            keep = []
            for b in blocks:
                i = b.find('s = <<')
                ln = b[i:b.find('>>', i)].count(',') + 1 if i >= 0 else 0
                if ln >= 7:
                    k += 1
                    if k % (20 if quick else 8) == chk.seed % (20 if quick else 8):
                        keep.append(b)
            sel.append(keep)
        total = 0
        for n, nontriv, drift, viol, samples in par.pmap(_replay_blocks, sel, chunksize=1):
            total += n
            for kk in nontriv:
                chk.nontrivial(kk)
            chk.drift += drift
            for what, case, exp, got in viol:
                chk.violation(what, case, exp, got, part='replay_reversals')
        chk.cov['traces_validated_against_impl'] += total
        chk.evals(total)
        chk.part('replay_' + cfgname, sequences_replayed=total, of_sequences_with_7_or_more_samples=k)
        os.remove(res.dump_path)
    # near ties at a large magnitude: loads whose ranges / extremes differ by one or two counts at 2^24 (every sequence replayed)
    cfgname = 'MC_HCM_near_quick.cfg' if quick else 'MC_HCM_near_thorough.cfg'
    res = tlc.run(TLA, os.path.join(SPEC, 'hcm', cfgname), dump=True, timeout=3000, heap='12g')
    chk.tlc(cfgname, res, 'strictly alternating load sequences over {-(2^24+1), -2^24, 0, 3, 2^24, 2^24+2}; SecondPass = Periodic, Memory3, counters')
    if res.violated:
        st = res.trace[-1] if res.trace else {}
        chk.machinery.append('model invariant %s violated for %s (near-tie instance)' % (res.violated, st.get('s')))
    if res.dump_path and os.path.exists(res.dump_path):
        total = 0
        for n, nontriv, drift, viol, samples in par.pmap(_replay_blocks, par.split_dump(res.dump_path, 64), chunksize=1):
            total += n
            for kk in nontriv:
                chk.nontrivial(kk)
            chk.drift += drift
            for what, case, exp, got in viol:
                chk.violation(what, case, exp, got, part='replay_near_ties')
        chk.cov['traces_validated_against_impl'] += total
        chk.evals(total)
        chk.part('replay_' + cfgname, sequences_replayed=total)
        os.remove(res.dump_path)
    # (C) recorded longer sequences + refinements, validated by TLC (model conformance + C04 on the logged content)
    rng = random.Random(chk.seed * 6151 + 11)
    nseq = 60 if quick else 500
    traces, meta = [], []
    for i in range(nseq):
        n = rng.randint(3, 25 if quick else 50)
        base = random_sequence(rng, n, rng.choice([2, 3, 5, 12, 20]))
        variants = [base] + non_reversal_insertions(base, rng, 3)
        per0 = Counter(periodic_py(base))
        for j, sq in enumerate(variants):
            try:
                tr, p = record_two_pass(sq)
            except Exception as ex:
                chk.violation('detector raised: %r' % ex, {'sequence': sq}, part='trace')
                continue
            traces.append(tr)
            meta.append((sq, base, j, p, per0))
    out = tlc.validate_traces(TRACE_TLA, os.path.join(SPEC, 'hcm', 'Trace_HCM_lin.cfg'), traces, 'c04', nsplit=12)
    chk.cov['states'] += out['states']
    chk.cov['transitions'] += out['generated']
    chk.part('trace_validation', traces=len(traces), tlc_states=out['states'], wall_s=round(out['wall'], 1))
    for e in out['errors']:
        chk.machinery.append('trace validation: ' + e)
    acc = 0
    for (sq, base, j, p, per0), v in zip(meta, out['verdicts']):
        chk.evals(1)
        if v is None:
            if not out['errors']:
                chk.machinery.append('no verdict for trace %s' % sq)
            continue
        steps, clause, logged = v[0], v[1], (v[2] if len(v) > 2 else 'n/a')
        second = Counter((r['loads_min'], r['loads_max']) for r in p['rows'] if r['run'] == 2)
        if clause == 'ok' and logged == 'holds':
            acc += 1
            chk.nontrivial(tuple(sq))
            if j > 0 and second != per0:
                chk.violation('refinement by non-reversal samples changed what the second pass counts', {'sequence': sq, 'refines': base}, sorted(per0.elements()), sorted(second.elements()), part='trace')
        elif logged not in ('holds', 'n/a') or (clause != 'ok' and c04_verdict(p, periodic_py(sq))):
            chk.violation('recorded two-pass run violates C04 (%s; trace clause %s at step %d)' % (logged, clause, steps), {'sequence': sq},
                          sorted(periodic_py(sq)), [(r['loads_min'], r['loads_max'], r['closed'], r['run']) for r in p['rows']], part='trace')
        else:
            chk.drift.append('trace of %s rejected (clause %s) but C04 holds on the logged content' % (sq, clause))
    chk.cov['traces_validated_against_impl'] += acc
    if traces:
        chk.sample({'recorded_trace': {'sequence': traces[0]['events'][0]['samples'], 'second_call_rows': traces[0]['events'][1]['rows'][:4]}}, cap=4)
    # known findings
    fs = findings.load('C04')
    keep = []
    for v in chk.violations:
        f = match_known(fs, v['case'], v['what'])
        if f:
            msg = '%s: %s' % (f['id'], f['symptom'])
            if msg not in chk.known:
                chk.known.append(msg)
        else:
            keep.append(v)
    chk.violations = keep
    chk.cov['rule'] = ('TLC enumerates every load sequence over Vals up to MaxLen (>= 2 distinct values) through process_hcm_first/second of the spec and checks '
                       'SecondPass = rainflow of the periodic reversal sequence; every sequence is replayed into FKMNonlinearDetector (exact linear law) and the '
                       'recorder content is judged by the same definition-level predicate (every third sequence also in a second load unit, factor 2^-30). Non-trivial = periodic sequence closes >= 2 hystereses. '
                       'Recorded longer sequences and their non-reversal refinements are validated by Trace_HCM.tla (model conformance + C04 on the logged rows).')
    chk.cov['rule'] += ' Also: strictly alternating sequences over -3..3 with up to 8 (9) samples (TLC on all, a fixed sample replayed), every third sequence in a second load unit (2^-30), every fifth as two proportional points with load steps labelled in descending order; strictly alternating sequences over {-(2^24+1), -2^24, 0, 3, 2^24, 2^24+2} with up to 6 (7) samples (near ties at a magnitude where x - 1e-12 = x), all replayed; every fourth sequence in tenths with equal loads differing by rounding noise; non-negative sequences also as uint8 / uint16 / int32 arrays; sequences are handed over in arrays that are overwritten after each call.'
    chk.cov['exhaustive'] = True
    chk.assumptions += ['integer loads (and the same loads times 2^-30): the 1e-12 comparison tolerances of the code do not act', 'injected exact linear law object (the detector accepts any law object)',
                        'single assessment point (multi-point decisions are covered by C05)']


def replay(chk, path):
    import json
    v = json.load(open(path))
    s = v['case']['sequence']
    p = code_rows(s)
    per = periodic_py(s)
    print('sequence', s)
    print('periodic', sorted(per))
    print('recorded', [(r['loads_min'], r['loads_max'], r['closed'], r['run']) for r in p.get('rows', [])])
    bad = c04_verdict(p, per)
    print('VIOLATION property=C04 replay=%s (%s)' % (path, bad) if bad else 'property holds on this case')
    return 1 if bad else 0

"""C11 — Miner damage is linear and agrees with the predicted Gassner lifetime."""
import os, warnings
import numpy as np
import pandas as pd
from .. import SPEC, tlc, par, findings
from ..tlaparse import parse_state

LEVEL = 'model_checking'
TLA = os.path.join(SPEC, 'miner', 'MC_Miner.tla')
SCALE = 35
RULES = {'original': 'miner_original', 'elementary': 'miner_elementary', 'haibach': 'miner_haibach'}


def close(a, b, rel=1e-11):
    a, b = np.asarray(a, dtype=np.float64), np.asarray(b, dtype=np.float64)
    return a.shape == b.shape and bool(np.all(np.abs(a - b) <= rel * np.maximum(np.abs(b), 1e-300)))


UNIT_EXP = -30         # a second load unit: every load (class limits, SD) times 2^-30 — C11 holds "scaled to any load level"


def histogram(coll, form, dtype=np.float64, unit_exp=0):
    """The collective as a pyLife load histogram (range / from-to interval classes whose amplitude is exactly 2^x)."""
    amp = [2.0 ** (x + unit_exp) for x, n in coll]
    cyc = np.asarray([n for x, n in coll], dtype=dtype)
    if form == 'range':
        idx = pd.IntervalIndex.from_arrays([2 * a - a / 4 for a in amp], [2 * a + a / 4 for a in amp], name='range')
        return pd.Series(cyc, index=idx, name='cycles')
    if form == 'range_mean':
        r = pd.IntervalIndex.from_arrays([2 * a - a / 4 for a in amp], [2 * a + a / 4 for a in amp])
        m = pd.IntervalIndex.from_arrays([-1.0 * 2.0 ** unit_exp] * len(amp), [3.0 * 2.0 ** unit_exp] * len(amp))
        return pd.Series(cyc, index=pd.MultiIndex.from_arrays([r, m], names=['range', 'mean']), name='cycles')
    # from/to: from-class mid = -a, to-class mid = +a
    f = pd.IntervalIndex.from_arrays([-a - a / 8 for a in amp], [-a + a / 8 for a in amp])
    t = pd.IntervalIndex.from_arrays([a - a / 8 for a in amp], [a + a / 8 for a in amp])
    return pd.Series(cyc, index=pd.MultiIndex.from_arrays([f, t], names=['from', 'to']), name='cycles')


def collective_frame(coll):
    return pd.DataFrame({'from': [-2.0 ** x for x, n in coll], 'to': [2.0 ** x for x, n in coll], 'cycles': [float(n) for x, n in coll]})


def check_state(st, fs):
    import pylife.strength.fatigue, pylife.strength.miner, pylife.strength.solidity, pylife.stress.collective  # noqa
    c, coll, out = st['c'], [tuple(x) for x in st['coll']], st['out']
    viol, known = [], []
    base = pd.Series({'k_1': float(c['k1']), 'SD': 2.0 ** c['a'], 'ND': 2.0 ** c['b']})
    case = {'k_1': c['k1'], 'SD': 2.0 ** c['a'], 'ND': 2.0 ** c['b'], 'classes_amplitude_cycles': [(2.0 ** x, n) for x, n in coll]}
    total = sum(n for _, n in coll)
    shuffled = coll[1:] + coll[:1]
    forms = {'range': histogram(coll, 'range').load_collective, 'range_mean': histogram(coll, 'range_mean').load_collective,
             'from_to': histogram(coll, 'from_to').load_collective, 'collective_df': collective_frame(coll).load_collective,
             'range_descending': histogram(coll[::-1], 'range').load_collective, 'range_rotated': histogram(shuffled, 'range').load_collective,
             'range_int_counts': histogram(coll, 'range', np.int64).load_collective, 'from_to_int_counts_rotated': histogram(shuffled, 'from_to', np.int64).load_collective}
    # a class of amplitude exactly zero (a range class centred at zero / the diagonal of a from-to matrix), empty and occupied: it does no damage
    def with_zero_class(n0):
        h = histogram(coll, 'range')
        z = pd.Series([float(n0)], index=pd.IntervalIndex.from_arrays([-0.5], [0.5], name='range'), name='cycles')
        return pd.concat([z, h]).load_collective
    forms['range_zero_class_empty'] = with_zero_class(0)
    forms['range_zero_class_occupied'] = with_zero_class(3)
    base_forms = ('range', 'range_mean', 'from_to', 'collective_df')
    with warnings.catch_warnings():
        warnings.simplefilter('ignore')
        try:
            for rule, meth in RULES.items():
                curve = getattr(base.woehler, meth)().to_pandas()
                want_total = {'original': out['d_orig'], 'haibach': out['d_haib'], 'elementary': out['d_elem']}[rule] / 2.0 ** SCALE
                for fname in base_forms:
                    lc = forms[fname]
                    d = curve.fatigue.damage(lc)
                    if not close(d.sum(), want_total):
                        viol.append(('damage sum under Miner %s differs from sum n_i / N_i' % rule, {**case, 'form': fname}, want_total, float(d.sum())))
                    if rule == 'elementary' and not close(d.to_numpy(), [v / 2.0 ** SCALE for v in out['per_class_elem']]):
                        viol.append(('per-class damage differs (additivity over members)', {**case, 'form': fname}, [v / 2.0 ** SCALE for v in out['per_class_elem']], d.tolist()))
                # the same curve and collective expressed in another load unit: damage is a pure number
                ucurve = getattr(pd.Series({'k_1': float(c['k1']), 'SD': 2.0 ** (c['a'] + UNIT_EXP), 'ND': 2.0 ** c['b']}).woehler, meth)().to_pandas()
                for fname in ('range', 'from_to'):
                    du = ucurve.fatigue.damage(histogram(coll, fname, unit_exp=UNIT_EXP).load_collective)
                    if not close(du.sum(), want_total):
                        viol.append(('damage sum under Miner %s changes when all loads are expressed in another unit (factor 2^%d)' % (rule, UNIT_EXP), {**case, 'form': fname}, want_total, float(du.sum())))
                # order independence on the real code (reversed class order)
                rev = histogram(coll[::-1], 'range').load_collective
                if not close(curve.fatigue.damage(rev).sum(), want_total):
                    viol.append(('damage depends on the order of the members', {**case, 'rule': rule}, want_total, float(curve.fatigue.damage(rev).sum())))
            # Gassner: apply the collective for the predicted number of cycles -> damage exactly one
            for rule, acc in (('elementary', 'gassner_miner_elementary'), ('haibach', 'gassner_miner_haibach')):
                curve = getattr(base.woehler, RULES[rule])().to_pandas()
                # a curve WITH scatter, queried at another failure probability first: the prediction must not depend on the call history
                scurve = curve.copy()
                scurve['TN'], scurve['TS'] = 4.0, 2.0
                # curve records given for another failure probability than 50 %, with scatter: cycles() and damage() work on the median
                # curve, so must the Gassner prediction
                for pf in (0.1, 0.9):
                    pcurve = scurve.copy()
                    pcurve['failure_probability'] = pf
                    lcp = forms['range']
                    ngp = float(getattr(pcurve, acc).gassner_cycles(lcp))
                    dp = ngp * float(pcurve.fatigue.damage(lcp).sum()) / total
                    if not close(dp, 1.0, 1e-10):
                        viol.append(('applying the collective for the Gassner cycles of Miner %s gives damage %.6g, not 1, for a curve given at %g %% failure probability with scatter' % (rule, dp, 100 * pf),
                                     {**case, 'TN': 4.0, 'TS': 2.0, 'failure_probability': pf}, 1.0, dp))
                for fname in ('range', 'from_to', 'collective_df', 'range_descending', 'range_rotated', 'range_int_counts', 'from_to_int_counts_rotated', 'range_zero_class_empty', 'range_zero_class_occupied', 'history'):
                    if fname == 'history':
                        lc = forms['range']
                        obj = getattr(scurve, acc)
                        fresh = float(getattr(scurve, acc).gassner_cycles(lc))
                        obj.cycles(2.0 ** (c['a'] + 1), failure_probability=0.1)
                        ng = float(obj.gassner_cycles(lc))
                        obj.cycles(2.0 ** (c['a'] + 1), failure_probability=0.1)
                        if not (close(float(obj.gassner_cycles(lc)), fresh, 1e-12) and close(ng, fresh, 1e-12)):
                            viol.append(('gassner_cycles of a kept rule object changes after a query at another failure probability', {**case, 'rule': rule}, fresh, [ng, float(obj.gassner_cycles(lc))]))
                    else:
                        lc = forms[fname]
                        ng = float(getattr(curve, acc).gassner_cycles(lc))
                    per_cycle = float(curve.fatigue.damage(lc).sum()) / (total + (3 if fname == 'range_zero_class_occupied' else 0))          # damage of one pass through the collective per cycle
                    dmg = ng * per_cycle
                    model_exp = out['gassner_elem'] if rule == 'elementary' else out['gassner_haib']
                    if not close(dmg, 1.0, 1e-10):
                        f = next((f for f in fs if f.get('match_rule') == rule and f.get('match') == 'maxocc_below_SD' and out['maxocc'] < c['a']), None)
                        if f and close(dmg, 2.0 ** model_exp, 1e-10):
                            known.append('%s: %s' % (f['id'], f['symptom']))
                        else:
                            viol.append(('applying the collective for the Gassner cycles of Miner %s gives damage %.6g, not 1' % (rule, dmg), {**case, 'form': fname}, 1.0, dmg))
                    if fname == 'history':
                        continue
                    if fname == 'range':
                        # (a) loads in another unit, (b) the rule object built from a curve RECORD carrying another k_2 (the rule fixes its own slope below SD)
                        ucurve = curve.copy()
                        ucurve['SD'] = 2.0 ** (c['a'] + UNIT_EXP)
                        ulc = histogram(coll, 'range', unit_exp=UNIT_EXP).load_collective
                        alts = [('loads in another unit (factor 2^%d)' % UNIT_EXP, float(getattr(ucurve, acc).gassner_cycles(ulc)) * float(ucurve.fatigue.damage(ulc).sum()) / total)]
                        for k2 in (float(c['k1']), 22.0, np.inf):
                            rec = curve.copy()
                            rec['k_2'] = k2
                            alts.append(('rule object built from a curve record with k_2 = %s' % k2, float(getattr(rec, acc).gassner_cycles(lc)) * per_cycle))
                        for label, dalt in alts:
                            if not close(dalt, dmg, 1e-10):
                                viol.append(('Gassner damage of Miner %s changes with %s' % (rule, label), {**case, 'form': fname}, dmg, dalt))
                    A = float(getattr(curve, acc).lifetime_multiple(lc))
                    dm = float(getattr(curve, acc).effective_damage_sum(lc))
                    if not (0.3 <= dm <= 1.0 and close(dm, min(max(0.3, 2.0 / A ** 0.25), 1.0), 1e-12)):
                        viol.append(('effective damage sum outside [0.3, 1] or not 2/A^(1/4) clipped', {**case, 'rule': rule}, None, dm))
            # (i) a KEPT histogram accessor evaluated at the class mids and then switched to the right / left class limits: every evaluation as from
            #     a fresh accessor switched before its first use; (ii) damage is proportional to the applied cycles, also far beyond damage 1
            curve_e = getattr(base.woehler, RULES['elementary'])().to_pandas()
            kept = histogram(coll, 'range').load_collective
            seq = []
            for step in ('mid', 'right', 'left', 'mid'):
                kept = {'mid': kept.use_class_mid, 'right': kept.use_class_right, 'left': kept.use_class_left}[step]() if hasattr(kept, 'use_class_mid') else \
                    ({'right': kept.use_class_right, 'left': kept.use_class_left}[step]() if step != 'mid' else histogram(coll, 'range').load_collective)
                fresh_acc = histogram(coll, 'range').load_collective
                fresh_acc = {'mid': lambda a: a, 'right': lambda a: a.use_class_right(), 'left': lambda a: a.use_class_left()}[step](fresh_acc)
                dk, df_ = float(curve_e.fatigue.damage(kept).sum()), float(curve_e.fatigue.damage(fresh_acc).sum())
                seq.append((step, dk, df_))
                if not close(dk, df_, 1e-12):
                    viol.append(('damage for a kept histogram accessor switched to the %s class limits after earlier evaluations differs from a fresh accessor' % step, {**case, 'evaluations': [x[0] for x in seq]}, df_, dk))
                    break
            d1 = curve_e.fatigue.damage(histogram(coll, 'range').load_collective)
            for rep in (2.0 ** 10, 2.0 ** 40):
                big = (histogram(coll, 'range') * rep).load_collective
                dr = curve_e.fatigue.damage(big)
                if not close(dr.to_numpy(), rep * d1.to_numpy(), 1e-12):
                    viol.append(('damage is not proportional to the applied cycles (collective applied %g times)' % rep, case, (rep * d1.to_numpy()).tolist(), dr.tolist()))
            # solidity
            V = sum(n * 2.0 ** (c['k1'] * (x - out['maxocc'])) for x, n in coll) / total
            sol = histogram(coll, 'range').solidity
            if not (close(sol.haibach(float(c['k1'])), V) and close(sol.fkm(float(c['k1'])), V ** (1.0 / c['k1']))):
                viol.append(('solidity differs from sum h_i (S_i/S_max)^k / sum h_i with S_max the largest occupied class', case, V, float(sol.haibach(float(c['k1'])))))
        except Exception as ex:
            viol.append(('raised %r' % ex, case, None, None))
    return viol, known


def check_degenerate(chk):
    """Collectives with nothing counted / only a zero-amplitude class: the effective damage sum still lies in [0.3, 1]."""
    import pylife.strength.fatigue, pylife.strength.miner, pylife.stress.collective  # noqa
    with warnings.catch_warnings():
        warnings.simplefilter('ignore')
        for k1 in (3.0, 5.0):
            base = pd.Series({'k_1': k1, 'SD': 16.0, 'ND': 2.0 ** 20})
            for name, coll in (('nothing counted', [(2, 0), (3, 0), (5, 0)]), ('only the lowest class occupied', [(2, 4), (3, 0), (5, 0)])):
                for rule, acc in (('elementary', 'gassner_miner_elementary'), ('haibach', 'gassner_miner_haibach')):
                    chk.evals(1)
                    curve = getattr(base.woehler, RULES[rule])().to_pandas()
                    try:
                        dm = float(getattr(curve, acc).effective_damage_sum(histogram(coll, 'range').load_collective))
                        if not 0.3 <= dm <= 1.0:
                            chk.violation('effective damage sum outside [0.3, 1] for a degenerate collective (%s)' % name, {'k_1': k1, 'rule': rule, 'classes_exponent_cycles': coll}, '[0.3, 1]', dm, part='degenerate')
                    except Exception as ex:
                        chk.violation('effective_damage_sum raised %r for a degenerate collective (%s)' % (ex, name), {'k_1': k1, 'rule': rule}, part='degenerate')


def _replay(args):
    blocks, fs = args
    n, nontriv, viol, known, samples = 0, [], [], set(), []
    for b in blocks:
        st = parse_state(b.strip())
        n += 1
        v, k = check_state(st, fs)
        viol += v
        known |= set(k)
        coll = st['coll']
        if any(cl[1] == 0 for cl in coll) and sum(1 for cl in coll if cl[1] > 0) >= 2:
            nontriv.append((st['c']['k1'], tuple(tuple(x) for x in coll)))
        if not samples and coll[-1][1] == 0 and coll[0][1] > 0:
            samples.append({'curve': st['c'], 'classes_exponent_cycles': coll, 'model_out': {k: st['out'][k] for k in ('d_orig', 'd_haib', 'd_elem', 'gassner_elem', 'gassner_haib')}})
    return n, nontriv, viol[:6], sorted(known), samples


def run(chk):
    quick = chk.tier == 'quick'
    cfgname = 'MC_Miner_quick.cfg' if quick else 'MC_Miner_thorough.cfg'
    res = tlc.run(TLA, os.path.join(SPEC, 'miner', cfgname), dump=True, timeout=1800)
    chk.tlc(cfgname, res, 'damage additive / proportional / order independent / original <= Haibach <= elementary; Gassner damage = 1 for every emptiness pattern')
    if res.violated:
        chk.machinery.append('model invariant %s violated: %s' % (res.violated, res.trace[-1:]))
    fs = findings.load('C11')
    if res.dump_path and os.path.exists(res.dump_path):
        parts = par.split_dump(res.dump_path, 32)
        tot = 0
        for n, nontriv, viol, known, samples in par.pmap(_replay, [(p, fs) for p in parts], chunksize=1):
            tot += n
            for k in nontriv:
                chk.nontrivial(k)
            for s in samples[:1]:
                chk.sample(s, cap=3)
            for m in known:
                if m not in chk.known:
                    chk.known.append(m)
            for what, case, exp, got in viol:
                chk.violation(what, case, exp, got, part='replay')
        chk.evals(tot)
        chk.cov['traces_validated_against_impl'] += tot
        os.remove(res.dump_path)
    check_degenerate(chk)
    chk.cov['rule'] = ('TLC enumerates curves (k_1 in {2,3}, SD=2^4, ND=2^20) x collectives of 3-4 classes with amplitudes 2^x around SD (4 load levels) and counts incl. 0 '
                       '(empty classes at the top, bottom, in between) and proves linearity and the Gassner identity on exact integers; every state is evaluated through '
                       'fatigue.damage, gassner_miner_elementary/_haibach, solidity for 4 collective layouts (range, range/mean, from/to histograms, from/to/cycles frame), also with all loads in a second unit (2^-30) and with rule objects built from curve records carrying a foreign k_2; degenerate collectives (nothing counted) for the effective damage sum. '
                       'Non-trivial = at least one empty class and two occupied ones.')
    chk.cov['rule'] += ' Also: all loads in a second unit (2^-30), rule objects built from curve records with a foreign k_2, records given at 10 / 90 % with scatter, a class of amplitude zero (empty / occupied), degenerate collectives, the lowest load levels (collective entirely below SD, k_1 = 2).'
    chk.cov['exhaustive'] = True
    chk.assumptions += ['power-of-two amplitudes and curve parameters (exact in float64); comparisons at rel 1e-11']


def replay(chk, path):
    print(open(path).read())
    return 0

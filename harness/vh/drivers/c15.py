"""C15 — failure probability equals the analytic load/strength distribution overlap."""
import os, warnings
from fractions import Fraction
import numpy as np
from .. import SPEC, tlc, par
from ..tlaparse import parse_state

LEVEL = 'model_checking'
TLA = os.path.join(SPEC, 'failprob', 'MC_FailProb.tla')


def near(got, want, rel=1e-5, ab=1e-9):
    """Agreement with the analytic value.  In the lower tail the value itself is small: between 1e-12 (the lower end of the property's range) and 1e-6
    agreement to 0.1 % of the value is asked for, below 1e-12 only that the answer is below 1e-12 as well."""
    if not np.isfinite(got):
        return False
    if want < 1e-12:
        return bool(-1e-300 <= got <= 1.001e-12)
    if want < 1e-6:
        return bool(abs(got - want) <= 1e-3 * want)
    return bool(abs(got - want) <= ab + rel * min(want, 1.0 - want))


def check_state(st):
    from scipy.stats import norm
    from pylife.strength.failure_probability import FailureProbability
    s50, d, (a, b, c), z, zoom = st['s50'], st['d'], st['t'], Fraction(*st['z']), st['zoom']
    viol = []
    lgS, lgL = s50 / 20.0, s50 / 20.0 + d / 20.0 / zoom
    S, L = 10.0 ** lgS, 10.0 ** lgL
    sS, sL = b / 100.0 / zoom, a / 100.0 / zoom
    want = float(norm.cdf(float(z)))
    case = {'strength_median': S, 'strength_std': sS, 'load_median': L, 'load_std': sL, 'exact_probit': str(z)}
    n = 0
    with warnings.catch_warnings():
        warnings.simplefilter('ignore')
        fp = FailureProbability(S, sS)
        try:
            if a == 0:
                n += 1
                got = float(fp.pf_simple_load(L))
                # the medians are doubles: their log-distance carries a few ulps of log10 S, which the division by a tiny scatter (zoom 1e5) magnifies
                dz = 8 * 2.3e-16 * max(1.0, abs(lgS)) / sS
                if not near(got, want, 1e-9, 1e-13 + float(norm.pdf(float(z))) * dz):
                    viol.append(('pf_simple_load differs from Phi((log10 L - log10 S) / s_S)', case, want, got))
                # vanishing load scatter: tends to the deterministic value
                prev = None
                for eps in (1e-3, 1e-5, 1e-7):
                    n += 1
                    g = float(fp.pf_norm_load(L, eps * sS))
                    err = abs(g - want)
                    if not (-1e-12 <= g <= 1.0 + 1e-12) or (prev is not None and err > prev + 1e-9):
                        viol.append(('pf_norm_load does not tend to the deterministic-load value as the load scatter vanishes', {**case, 'load_std': eps * sS}, want, g))
                    prev = err
                if prev is not None and prev > 1e-7:
                    viol.append(('pf_norm_load with load scatter 1e-7 s_S is not the deterministic-load value', case, want, g))
            else:
                n += 1
                got = float(fp.pf_norm_load(L, sL))
                if not (-1e-12 <= got <= 1.0 + 1e-12) or not near(got, want):
                    viol.append(('pf_norm_load differs from Phi((log10 L - log10 S) / sqrt(s_L^2 + s_S^2))', case, want, got))
                # array-valued strength (N points at once are documented): same value per point -- only where the API supports it (scalar integration)
                # arbitrary-distribution variant on a sampled log-normal density: converges to the same value
                errs = []
                slender = c > 40          # one scatter >= 4.5 times the other: the user's grid, not the code, decides how well the narrow distribution is resolved
                for N in ((401, 3201) if not slender else (3201, 25601)):
                    n += 1
                    x = np.linspace(lgL - 12 * sL, lgL + 12 * sL, N)
                    pdf = norm.pdf(x, loc=lgL, scale=sL)
                    x0, pdf0 = x.copy(), pdf.copy()
                    g = float(fp.pf_arbitrary_load(x, pdf))
                    # the caller's arrays are inputs: untouched, and asking again (same object, same arrays) gives the same answer
                    g_again = float(fp.pf_arbitrary_load(x, pdf))
                    if not (np.array_equal(x, x0) and np.array_equal(pdf, pdf0)) or g_again != g:
                        viol.append(('pf_arbitrary_load modified the arrays handed in / answers differently when asked again', {**case, 'samples': N}, g, g_again))
                    errs.append(abs(g - want))
                    if not 0.0 <= g <= 1.0 + 1e-12:
                        viol.append(('pf_arbitrary_load outside [0, 1]', {**case, 'samples': N}, want, g))
                if not ((errs[1] <= 1e-10 + 1e-6 * min(want, 1 - want) or (slender and errs[1] <= 2e-3)) and errs[1] <= errs[0] + 1e-12):
                    viol.append(('pf_arbitrary_load on a sampled log-normal density does not converge to the analytic value', case, want, errs))
                # a grid that covers only the part of the load density that can meet the strength (strength cdf < 1e-18 below it) gives the same value
                lo = max(lgL - 12 * sL, lgS - 9 * sS)
                if lo > lgL - 12 * sL and lo < lgL + 11 * sL and not slender:
                    n += 1
                    xf = np.linspace(lgL - 12 * sL, lgL + 12 * sL, 3201)
                    xt = xf[xf >= lo]
                    if len(xt) >= 50:
                        g_full = float(fp.pf_arbitrary_load(xf, norm.pdf(xf, loc=lgL, scale=sL)))
                        g_trunc = float(fp.pf_arbitrary_load(xt, norm.pdf(xt, loc=lgL, scale=sL)))
                        if abs(g_trunc - g_full) > 1e-12 + 1e-9 * g_full:
                            viol.append(('pf_arbitrary_load on the part of the sampled density that reaches the strength distribution differs from the value on the whole density', {**case, 'grid_from': lo}, g_full, g_trunc))
                # integration limits that cover the whole distribution give the same value
                n += 1
                g = float(fp.pf_norm_load(L, sL, lower_limit=lgL - 14 * sL, upper_limit=lgL + 14 * sL))
                if not near(g, want):
                    viol.append(('pf_norm_load with explicit limits covering +-14 standard deviations differs from the analytic value', case, want, g))
        except Exception as ex:
            viol.append(('failure probability raised %r' % ex, case, None, None))
    return n, viol


def _replay(blocks):
    n, nontriv, viol, samples = 0, [], [], []
    for b in blocks:
        st = parse_state(b.strip())
        k, v = check_state(st)
        n += k
        viol += v
        if st['d'] != 0 and st['t'][0] != 0:
            nontriv.append((st['s50'], st['d'], tuple(st['t']), st['zoom']))
        if not samples and st['d'] > 0 and st['t'][0] != 0:
            samples.append({'log10_strength_median_x20': st['s50'], 'log10_load_minus_strength_x20': st['d'], 'std_load_strength_root_x100': st['t'], 'exact_probit': st['z']})
    return n, nontriv, viol[:6], samples


def run(chk):
    quick = chk.tier == 'quick'
    cfgname = 'MC_FailProb_quick.cfg' if quick else 'MC_FailProb_thorough.cfg'
    res = tlc.run(TLA, os.path.join(SPEC, 'failprob', cfgname), dump=True, timeout=900)
    chk.tlc(cfgname, res, 'probit of the failure probability as an exact rational on Pythagorean scatter pairs; ratio-only, monotone in both medians, mirror = complement, scatter flattens, deterministic limit')
    if res.violated:
        chk.machinery.append('model invariant %s violated: %s' % (res.violated, res.trace[-1:]))
    if res.dump_path and os.path.exists(res.dump_path):
        tot = 0
        for n, nontriv, viol, samples in par.pmap(_replay, par.split_dump(res.dump_path, 32), chunksize=1):
            tot += n
            for x in nontriv:
                chk.nontrivial(x)
            for s in samples[:1]:
                chk.sample(s, cap=3)
            for what, case, exp, got in viol:
                chk.violation(what, case, exp, got, part='replay')
        chk.evals(tot)
        chk.cov['traces_validated_against_impl'] += tot
        os.remove(res.dump_path)
    # monotonicity on the real code along the model's chains (increasing load median / strength median), incl. the tails
    from pylife.strength.failure_probability import FailureProbability
    with warnings.catch_warnings():
        warnings.simplefilter('ignore')
        for (a, b) in ((3, 4), (12, 5), (20, 21)):
            prev = None
            for d in list(range(-60, -16, 4)) + list(range(-16, 17)) + list(range(20, 61, 4)):      # up to three decades apart: probability 0 resp. 1
                chk.evals(1)
                g = float(FailureProbability(100.0, b / 100.0).pf_norm_load(10.0 ** (2 + d / 20.0), a / 100.0))
                g2 = float(FailureProbability(10.0 ** (2 - d / 20.0), b / 100.0).pf_norm_load(100.0, a / 100.0))
                if not (-1e-12 <= g <= 1.0 + 1e-12) or (prev is not None and g < prev - 1e-12) or abs(g - g2) > 1e-9 + 1e-5 * min(g, 1 - g):
                    chk.violation('failure probability not increasing with the load median / not decreasing with the strength median / outside [0, 1]',
                                  {'load_std': a / 100.0, 'strength_std': b / 100.0, 'log10_load_over_strength': d / 20.0}, prev, [g, g2], part='monotone')
                if (d >= 40 and g < 1.0 - 1e-9) or (d <= -40 and g > 1e-9):
                    chk.violation('failure probability for load and strength two decades apart is not 1 resp. 0', {'load_std': a / 100.0, 'strength_std': b / 100.0, 'log10_load_over_strength': d / 20.0}, 1.0 if d > 0 else 0.0, g, part='monotone')
                prev = g
    # off the lattice: seeded random scatter pairs over three and a half decades each (any scatter ratio) x probits in +-7.5, and strength medians exactly
    # 16 load standard deviations away from the load median give or take a few ulps (the edge of the default integration window)
    rng = np.random.default_rng(chk.seed + 15)
    draws = [(10 ** rng.uniform(-4, -0.3), 10 ** rng.uniform(-4, -0.3), rng.uniform(-7.5, 7.5)) for _ in range(240 if quick else 3000)]
    for sS, sL in ((0.12, 0.05), (0.001, 0.2), (0.2, 0.001), (0.04, 0.03)):
        for k in (-16.0, 16.0):
            for eps in (0.0, 2e-16, -2e-16, 3e-16, 1e-14, -1e-12, 1e-9, -1e-6):
                draws.append((sS, sL, k * sL * (1 + eps) / float(np.hypot(sS, sL))))
    from scipy.stats import norm
    with warnings.catch_warnings(record=True) as caught:
        warnings.simplefilter('always')
        for sS, sL, zz in draws:
            chk.evals(1)
            c = float(np.hypot(sS, sL))
            want = float(norm.cdf(zz))
            case = {'strength_median': 100.0, 'strength_std': sS, 'load_median': 100.0 * 10.0 ** (zz * c), 'load_std': sL, 'probit': zz}
            try:
                g = float(FailureProbability(100.0, sS).pf_norm_load(case['load_median'], sL))
            except Exception as ex:
                chk.violation('pf_norm_load raised %r' % ex, case, want, None, part='random_pairs')
                continue
            if not near(g, want):
                chk.violation('pf_norm_load differs from Phi((log10 L - log10 S) / sqrt(s_L^2 + s_S^2)) for a scatter pair off the lattice', case, want, g, part='random_pairs')
            else:
                chk.nontrivial(('random_pair', round(sS, 8), round(sL, 8), round(zz, 6)))
    nwarn = [w for w in caught if 'Integration' in type(w.message).__name__ or 'integra' in str(w.message).lower()]
    if nwarn:
        chk.violation('pf_norm_load: the quadrature reports trouble (IntegrationWarning) for an ordinary log-normal load / strength pair', {'first_warning': str(nwarn[0].message)[:200], 'count': len(nwarn)}, None, None, part='random_pairs')
    chk.part('random_pairs', pairs=len(draws))
    # call histories on ONE kept FailureProbability object (HeldCalls.tla): valid calls, a call that raises, then valid calls again
    res = tlc.run(os.path.join(SPEC, 'meanstress', 'MC_HeldCalls.tla'), os.path.join(SPEC, 'meanstress', 'MC_HeldCalls_failprob.cfg'), dump=True, timeout=600)
    chk.tlc('MC_HeldCalls_failprob.cfg', res, 'call histories on a kept FailureProbability object: every answer as from a fresh object, also after a call that raised')
    if res.violated:
        chk.machinery.append('model invariant %s violated: %s' % (res.violated, res.trace[-1:]))
    if res.dump_path and os.path.exists(res.dump_path):
        from ..tlaparse import parse_dump
        from scipy.stats import norm
        STRENGTH = {'s100': (100.0, 0.04), 's300': (300.0, 0.1)}
        LOADS = {'l1': 80.0, 'l2': 250.0}

        def ask(fp, what, L):
            try:
                if what == 'simple':
                    return float(fp.pf_simple_load(L))
                if what == 'norm':
                    return float(fp.pf_norm_load(L, 0.03))
                if what == 'bad':        # an array of scatters: raises inside the integration on the unchanged tree as well
                    return float(fp.pf_norm_load(L, np.array([0.03, 0.05])))
                x = np.linspace(np.log10(L) - 0.4, np.log10(L) + 0.4, 801)
                return float(fp.pf_arbitrary_load(x, norm.pdf(x, loc=np.log10(L), scale=0.03)))
            except Exception as ex:
                return 'raised ' + type(ex).__name__
        nh = 0
        with warnings.catch_warnings():
            warnings.simplefilter('ignore')
            fresh = {(o, w, g): ask(FailureProbability(*STRENGTH[o]), w, LOADS[g]) for o in STRENGTH for w in ('simple', 'norm', 'bad', 'arbitrary') for g in LOADS}
            for st in parse_dump(res.dump_path):
                hist = [tuple(c) for c in st['hist']]
                if len(hist) < 2:
                    continue
                nh += 1
                fp = FailureProbability(*STRENGTH[st['obj']])
                for k, (g, w) in enumerate(hist):
                    got = ask(fp, w, LOADS[g])
                    want = fresh[(st['obj'], w, g)]
                    if got != want and not (isinstance(got, float) and isinstance(want, float) and abs(got - want) <= 1e-12):
                        chk.violation('call %d on a kept FailureProbability object answers differently from a fresh object (state carried between calls)' % (k + 1),
                                      {'strength': STRENGTH[st['obj']], 'calls_load_kind': [list(c) for c in hist]}, want, got, part='held')
                        break
                else:
                    chk.nontrivial(('held', st['obj'], tuple(hist)))
        os.remove(res.dump_path)
        chk.evals(nh)
        chk.part('held', histories=nh)
    chk.cov['rule'] = ('TLC enumerates strength medians x load/strength median ratios (steps of 1/20 decade) x scatter pairs that are legs of Pythagorean triples (in 1/100 decade; leg 0 = deterministic load), '
                       'incl. slender pairs (ratios 4.5, 20, 200) and medians up to 2.8 decades apart (probits beyond +-7), for which the probit of the analytic failure probability is an exact rational, and proves the order/mirror/limit laws on it; every state is evaluated through FailureProbability '
                       '(pf_simple_load, pf_norm_load incl. explicit limits and vanishing load scatter, pf_arbitrary_load on sampled log-normal densities of two resolutions). '
                       'Off the lattice: seeded random scatter pairs (1e-4 .. 0.5 each) x probits in +-7.5 and strength medians at the edge of the default integration window (+-16 load standard deviations, give or take ulps). Non-trivial = different medians and a scattering load.')
    chk.cov['exhaustive'] = True
    chk.assumptions += ['"stays in [0, 1]" is read up to rounding (1e-12): the quadrature returns 1.0000000000000002 for probits above 8', 'scipy.stats.norm.cdf of the exact probit is the reference value; agreement is required to 1e-9 absolute + 1e-5 of the smaller tail; for values between 1e-12 and 1e-6 to 0.1 % of the value; for values below 1e-12 (outside the range of the property) only that the answer is below 1e-12 too',
                        'pf_arbitrary_load is given the density on +-12 standard deviations around the load median; convergence = error at 3201 samples <= error at 401 samples and <= 1e-10 + 1e-6 of the smaller tail']


def replay(chk, path):
    print(open(path).read())
    return 0

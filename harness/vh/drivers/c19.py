"""C19 — mesh operators are exact on linear fields and respect mesh connectivity."""
import os, warnings, random, itertools
import numpy as np
import pandas as pd
from .. import SPEC, tlc, par, findings
from ..tlaparse import parse_state, parse_dump

LEVEL = 'model_checking'
HS_TLA = os.path.join(SPEC, 'mesh', 'MC_Hotspot.tla')
MO_TLA = os.path.join(SPEC, 'mesh', 'MC_MeshOps.tla')
TETS = [(0, 1, 3, 4), (1, 2, 3, 6), (1, 3, 4, 6), (3, 4, 6, 7), (1, 4, 5, 6), (1, 2, 6, 5)]   # unused corners order irrelevant for linear fields


def close(a, b, tol=1e-9):
    a, b = np.asarray(a, dtype=np.float64), np.asarray(b, dtype=np.float64)
    return a.shape == b.shape and bool(np.all(np.abs(a - b) <= tol * (1.0 + np.abs(b))))


# ------------------------------------------------------------------ hot spot
def labels_equivalent(got, want, values):
    """Same partition into hot spots; numbering may differ only among hot spots with equal peak value."""
    if [g != 0 for g in got] != [w != 0 for w in want]:
        return False
    m = {}
    for g, w in zip(got, want):
        if w == 0:
            continue
        if m.setdefault(w, g) != g:
            return False
    if len(set(m.values())) != len(m):
        return False
    peak = {}
    for w, v in zip(want, values):
        if w:
            peak[w] = max(peak.get(w, -1e300), v)
    for w1, w2 in itertools.combinations(m, 2):
        if peak[w1] > peak[w2] and not m[w1] < m[w2]:
            return False
        if peak[w1] < peak[w2] and not m[w1] > m[w2]:
            return False
    return sorted(m.values()) == list(range(1, len(m) + 1))


def _replay_hotspot(args):
    import pylife.mesh.hotspot  # noqa
    blocks, seed = args
    rng = random.Random(seed)
    n, nontriv, viol, samples = 0, [], [], []
    with warnings.catch_warnings():
        warnings.simplefilter('ignore')
        for b in blocks:
            st = parse_state(b.strip())
            ent, (fn, fd), want = st['ent'], st['frac'], list(st['out'])
            n += 1
            # arbitrary ids and row order
            emap = {e: rid for e, rid in zip(sorted({x[0] for x in ent}), rng.sample([3, 11, 12, 40, 7], 5))}
            nmap = {e: rid for e, rid in zip(sorted({x[1] for x in ent}), rng.sample([100, 5, 23, 8, 64], 5))}
            order = list(range(len(ent)))
            if n % 2:
                rng.shuffle(order)
            df = pd.DataFrame({'v': [float(ent[i][2]) for i in order], 'x': 0.0, 'y': 0.0, 'z': 0.0},
                              index=pd.MultiIndex.from_tuples([(emap[ent[i][0]], nmap[ent[i][1]]) for i in order], names=['element_id', 'node_id']))
            case = {'entries_element_node_value': [list(ent[i]) for i in order], 'limit_frac': fn / fd}
            try:
                got = df.hotspot.calc('v', limit_frac=fn / fd)
            except Exception as ex:
                viol.append(('hotspot.calc raised %r' % ex, case, None, None))
                continue
            g = [int(x) for x in got.to_numpy()]
            w = [want[i] for i in order]
            if list(got.index) != list(df.index) or not labels_equivalent(g, w, [ent[i][2] for i in order]):
                viol.append(('hot-spot labels are not the connected components of the entries at or above the threshold, numbered by descending peak', case, w, g))
            if max(want) >= 2:
                nontriv.append((tuple(ent), fn, fd))
            if not samples and max(want) >= 2:
                samples.append({'entries': ent, 'limit_frac': [fn, fd], 'labels': want})
    return n, nontriv, viol[:5], samples


# ------------------------------------------------------------------ block meshes
def lattice_xyz(c, perturb):
    i, j, k = c
    if not perturb:
        return (float(i), float(j), float(k))
    # deterministic small rational perturbation (keeps the mesh non-degenerate)
    return (i + 0.0625 * ((3 * i + 5 * j + 7 * k) % 4 - 1.5) * 0.5, j + 0.03125 * ((5 * i + 2 * j + 3 * k) % 5 - 2), k + 0.0625 * ((i + 4 * j + 6 * k) % 3 - 1))


def build_frames(st, perturb, field, kind='hex', rng=None, scale=1.0):
    nodes = {nid: tuple(c) for nid, c in st['out']['nodes']}
    rows = []
    for eid, conn in sorted(st['out']['elems']):
        if kind == 'hex':
            rows += [(eid, n) for n in conn]
        elif kind == 'tet':
            for t, tet in enumerate(TETS):
                rows += [(eid * 10 + t, conn[a]) for a in tet]
        else:  # mixed: first element as tets, the others as hexahedra
            if eid == sorted(st['out']['elems'])[0][0]:
                for t, tet in enumerate(TETS):
                    rows += [(eid * 10 + 1000 + t, conn[a]) for a in tet]
            else:
                rows += [(eid, n) for n in conn]
    if st['roworder'] == 'interleaved':
        # rows of different elements interleaved (round robin), the node order inside each element kept
        groups = {}
        for e_, n_ in rows:
            groups.setdefault(e_, []).append((e_, n_))
        gl = list(groups.values())
        rows = [g_[j] for j in range(max(len(g_) for g_ in gl)) for g_ in gl if j < len(g_)]
    if st['roworder'] == 'reversed':
        # reverse the order of the elements, keep the node order inside each element (it is the connectivity)
        groups = []
        for e, n in rows:
            if groups and groups[-1][0][0] == e:
                groups[-1].append((e, n))
            else:
                groups.append([(e, n)])
        rows = [r for g in reversed(groups) for r in g]
    g, c0 = field
    xyz = {nid: tuple(scale * a for a in lattice_xyz(c, perturb)) for nid, c in nodes.items()}
    df = pd.DataFrame({'x': [xyz[n][0] for _, n in rows], 'y': [xyz[n][1] for _, n in rows], 'z': [xyz[n][2] for _, n in rows]},
                      index=pd.MultiIndex.from_tuples(rows, names=['element_id', 'node_id']))
    df['f'] = g[0] * df.x + g[1] * df.y + g[2] * df.z + c0
    if st['roworder'] == 'interleaved' and kind != 'hex' and False:
        pass
    return df, nodes, xyz


def _only_hull_nans(got, want, pts):
    """True iff got differs from want only by NaN entries, all of them at vertices of the convex hull of the source points."""
    got, want = np.asarray(got, dtype=np.float64), np.asarray(want, dtype=np.float64)
    bad = ~np.isclose(got, want, rtol=1e-9, atol=1e-9)
    if not bad.any() or not np.isnan(got[bad]).all():
        return False
    try:
        from scipy.spatial import ConvexHull
        hull = set(ConvexHull(np.asarray(pts, dtype=np.float64)).vertices.tolist())
    except Exception:
        return False
    return all(int(i) in hull for i in np.nonzero(bad)[0])


def _hull_nan_known(fs, known, got, want, pts):
    f = next((f for f in fs if f.get('match') == 'hull_vertex_nan'), None)
    if f is not None and _only_hull_nans(got, want, pts):
        known.add('%s: %s' % (f['id'], f['symptom']))
        return True
    return False


def check_meshops(st, fs, known):
    import pylife.mesh.gradient, pylife.mesh.surface, pylife.mesh.meshmapping  # noqa
    v = []
    d = st['d']
    case0 = {'block': list(d), 'node_numbering': st['nscheme'], 'element_numbering': st['escheme'], 'row_order': st['roworder']}
    fields = [((1.0, 0.0, 0.0), 0.0), ((2.0, -1.0, 3.0), 5.0)]
    with warnings.catch_warnings():
        warnings.simplefilter('ignore')
        for kind in ('hex', 'tet', 'mixed'):
            if kind == 'mixed' and len(st['out']['elems']) < 2:
                continue
            # the second field is also evaluated on the same mesh expressed in a 4096 times larger length unit (element edges of 2.4e-4)
            variants = [(fields[0], 1.0, True), (fields[1], 1.0, True), (fields[1], 2.0 ** -12, True)]
            if st['roworder'] == 'interleaved':
                variants.append((fields[1], 1.0, False))      # the regular, unperturbed grid: a scrambled node order inside an element makes corner Jacobians singular there
            for field, scale, pert in variants:
                df, nodes, xyz = build_frames(st, pert, field, kind, scale=scale)
                g = field[0]
                case = {**case0, 'elements': kind, 'gradient': list(g), 'length_scale': scale, 'perturbed_nodes': pert}
                try:
                    gr = df.gradient_3D.gradient_of('f')
                    if set(gr.index) != set(nodes) or not close(gr.to_numpy(), np.tile(g, (len(gr), 1))):
                        v.append(('gradient_3D of a linear field is not the constant gradient at every node', case, list(g), gr.to_numpy()[:3].tolist()))
                except Exception as ex:
                    v.append(('gradient_3D raised %r' % ex, case, None, None))
                # kept accessor objects asked again for another field of the same frame: as a fresh accessor (no field/geometry state carried)
                if scale == 1.0 and field is fields[1] and pert:
                    try:
                        acc3, accl = df.gradient_3D, df.gradient
                        acc3.gradient_of('f'); accl.gradient_of('f')
                        df['h'] = 7.0 * df.x - 2.0 * df.z + 1.0
                        g3, gl2 = acc3.gradient_of('h'), accl.gradient_of('h')
                        if not (close(g3.to_numpy(), np.tile([7.0, 0.0, -2.0], (len(g3), 1))) and close(gl2.to_numpy(), np.tile([7.0, 0.0, -2.0], (len(gl2), 1)), 1e-8)):
                            v.append(('a kept gradient accessor asked for a second field answers with something else than that field\'s gradient', case, [7.0, 0.0, -2.0], [g3.to_numpy()[:2].tolist(), gl2.to_numpy()[:2].tolist()]))
                    except Exception as ex:
                        v.append(('kept gradient accessor raised %r on its second field' % ex, case, None, None))
                # least-squares gradient needs neighbours spanning 3D: every block of this catalogue does
                try:
                    gl = df.gradient.gradient_of('f')
                    if set(gl.index) != set(nodes) or not close(gl.to_numpy(), np.tile(g, (len(gl), 1)), 1e-8):
                        v.append(('least-squares gradient of a linear field is not the constant gradient at every node', case, list(g), gl.to_numpy()[:3].tolist()))
                except Exception as ex:
                    f = next((f for f in fs if f.get('match') == 'gradient_ids' and st['nscheme'] != 'contiguous'), None)
                    if f:
                        known.add('%s: %s' % (f['id'], f['symptom']))
                    else:
                        v.append(('least-squares gradient raised %r' % ex, case, None, None))
        # surface detection on the hexahedral block (unperturbed boundary)
        df, nodes, xyz = build_frames(st, False, fields[1], 'hex')
        try:
            s = df.surface_3D.is_at_surface()
            flagged = {int(n) for (e, n), val in s.items() if val}
            unflagged = {int(n) for (e, n), val in s.items() if not val}
            want = set(st['out']['boundary'])
            if flagged != want or (flagged & unflagged):
                v.append(('surface detection does not flag exactly the boundary nodes of the block', case0, sorted(want), sorted(flagged)))
        except Exception as ex:
            v.append(('is_at_surface raised %r' % ex, case0, None, None))
        # mesh mapping: onto the same points, onto interior points, onto a plane z = const
        for field in fields:
            df, nodes, xyz = build_frames(st, True, field, 'hex')
            g, c0 = field
            src = df.reset_index().drop_duplicates('node_id').set_index('node_id')[['x', 'y', 'z', 'f']]
            case = {**case0, 'gradient': list(g)}
            try:
                same = src[['x', 'y', 'z']].copy()
                r = same.meshmapper.process(src, 'f')
                # one kept mapper object, a second source of the same size (shifted points, another linear field): as a fresh mapper
                mapper = same.meshmapper
                mapper.process(src, 'f')
                src2 = src.copy()
                src2[['x', 'y', 'z']] = src2[['x', 'y', 'z']].to_numpy() * 1.5 + 0.25
                src2['f'] = 4.0 * src2.x + 1.0 * src2.y - 2.0 * src2.z + 3.0
                r_kept = mapper.process(src2, 'f')
                r_fresh = same.copy().meshmapper.process(src2, 'f')
                if not (np.array_equal(np.isnan(r_kept['f'].to_numpy()), np.isnan(r_fresh['f'].to_numpy())) and close(np.nan_to_num(r_kept['f'].to_numpy()), np.nan_to_num(r_fresh['f'].to_numpy()))):
                    v.append(('a kept mesh mapper asked to map a second source answers differently from a fresh mapper', case, r_fresh['f'].tolist()[:4], r_kept['f'].tolist()[:4]))
                if (not close(r['f'].to_numpy(), src['f'].to_numpy()) or list(r.index) != list(same.index)) and not (list(r.index) == list(same.index) and _hull_nan_known(fs, known, r['f'].to_numpy(), src['f'].to_numpy(), same.to_numpy())):
                    v.append(('mapping a mesh field onto the same points does not return the field', case, src['f'].tolist(), r['f'].tolist()))
                # the target frame stores its coordinate columns in another order than the source (z, x, y against x, y, z; a foreign column in between)
                perm_t = same[['z', 'x', 'y']].copy()
                perm_t.insert(1, 'weight', 1.0)
                rp = perm_t.meshmapper.process(src[['f', 'y', 'x', 'z']], 'f')
                if (not close(rp['f'].to_numpy(), src['f'].to_numpy()) or list(rp.index) != list(same.index)) and not (list(rp.index) == list(same.index) and _hull_nan_known(fs, known, rp['f'].to_numpy(), src['f'].to_numpy(), same.to_numpy())):
                    v.append(('mapping onto the same points given with their coordinate columns in another order (z, x, y / y, x, z) does not return the field', case, src['f'].tolist()[:4], rp['f'].tolist()[:4]))
                if min(d) >= 1:
                    pts = []
                    for c in st['out']['elems']:
                        conn = c[1]
                        P = np.array([xyz[n] for n in conn])
                        pts.append(P.mean(axis=0))
                        pts.append(0.7 * P.mean(axis=0) + 0.3 * P[0])
                    # points on one plane z = const inside the block (the field depends on z)
                    zc = 0.5 * d[2]
                    pts += [(0.5 * d[0] + 0.1 * a, 0.5 * d[1] - 0.07 * a, zc) for a in (-1, 0, 1)]
                    tgt = pd.DataFrame(np.array(pts[-3:]), columns=['x', 'y', 'z'], index=pd.Index(range(3), name='node_id'))
                    r2 = tgt.meshmapper.process(src, 'f')
                    want = g[0] * tgt.x + g[1] * tgt.y + g[2] * tgt.z + c0
                    if not close(r2['f'].to_numpy(), want.to_numpy(), 1e-8):
                        v.append(('mapping a linear field onto points of a plane z = const does not return the linear values', case, want.tolist(), r2['f'].tolist()))
                    tgt = pd.DataFrame(np.array(pts[:-3]), columns=['x', 'y', 'z'], index=pd.Index(range(len(pts) - 3), name='node_id'))
                    r3 = tgt.meshmapper.process(src, 'f')
                    want = g[0] * tgt.x + g[1] * tgt.y + g[2] * tgt.z + c0
                    if not close(r3['f'].to_numpy(), want.to_numpy(), 1e-8):
                        v.append(('mapping a linear field onto interior points does not return the linear values', case, want.tolist()[:3], r3['f'].tolist()[:3]))
            except Exception as ex:
                v.append(('meshmapper.process raised %r' % ex, case, None, None))
    return v


def _replay_meshops(args):
    blocks, fs = args
    n, nontriv, viol, known, samples = 0, [], [], set(), []
    for b in blocks:
        st = parse_state(b.strip())
        n += 1
        try:
            viol += check_meshops(st, fs, known)
        except Exception as ex:
            viol.append(('mesh operator check raised %r' % ex, {'block': list(st['d'])}, None, None))
        if st['nscheme'] != 'contiguous' or st['escheme'] != 'contiguous' or st['roworder'] != 'natural':
            nontriv.append((tuple(st['d']), st['nscheme'], st['escheme'], st['roworder']))
        if not samples:
            samples.append({'block': st['d'], 'node_numbering': st['nscheme'], 'element_numbering': st['escheme'], 'row_order': st['roworder'], 'boundary_node_ids': sorted(st['out']['boundary'])[:8]})
    return n, nontriv, viol[:6], sorted(known), samples


def run(chk):
    quick = chk.tier == 'quick'
    tier = 'quick' if quick else 'thorough'
    fs = findings.load('C19')
    # witness of the known finding C19-hull-vertex-nan (evaluated in both tiers; the quick instance has no block that runs into it)
    for f in fs:
        if f.get('match') == 'hull_vertex_nan':
            try:
                import pylife.mesh.meshmapping  # noqa
                with warnings.catch_warnings():
                    warnings.simplefilter('ignore')
                    P = np.asarray(f['witness']['points_x_y_z'], dtype=np.float64)
                    srcw = pd.DataFrame(P, columns=['x', 'y', 'z'], index=pd.Index([1, 5, 2, 6, 4, 8, 3, 7, 9, 10, 12, 11], name='node_id'))
                    srcw['f'] = srcw.x + 0.5
                    rw = srcw[['x', 'y', 'z']].copy().meshmapper.process(srcw, 'f')['f'].to_numpy()
                chk.evals(1)
                if _only_hull_nans(rw, srcw['f'].to_numpy(), P):
                    chk.known.append('%s: %s' % (f['id'], f['symptom']))
                elif not close(rw, srcw['f'].to_numpy()):
                    chk.violation('mapping a mesh field onto the same points does not return the field', {'points': P.tolist()}, srcw['f'].tolist(), rw.tolist(), part='mapping_witness')
            except Exception as ex:
                chk.machinery.append('witness of C19-hull-vertex-nan raised %r' % ex)
    res = tlc.run(HS_TLA, os.path.join(SPEC, 'mesh', 'MC_Hotspot_%s.cfg' % tier), dump=True, timeout=3000, heap='12g')
    chk.tlc('MC_Hotspot_%s.cfg' % tier, res, 'region growing as coded = connected components of the thresholded entries, numbered by descending peak')
    if res.violated:
        chk.machinery.append('model invariant %s violated: %s' % (res.violated, res.trace[-1:]))
    if res.dump_path and os.path.exists(res.dump_path):
        parts = par.split_dump(res.dump_path, 64)
        tot = 0
        for n, nontriv, viol, samples in par.pmap(_replay_hotspot, [(p, chk.seed * 100 + i) for i, p in enumerate(parts)], chunksize=1):
            tot += n
            for x in nontriv:
                chk.nontrivial(x)
            for s in samples[:1]:
                chk.sample(s, cap=2)
            for what, case, exp, got in viol:
                chk.violation(what, case, exp, got, part='hotspot')
        chk.evals(tot)
        chk.cov['traces_validated_against_impl'] += tot
        chk.part('hotspot', fields=tot)
        os.remove(res.dump_path)
    for extra in (('MC_Hotspot_neg.cfg',) if quick else ('MC_Hotspot_neg.cfg', 'MC_Hotspot_mixed.cfg')):
        res = tlc.run(HS_TLA, os.path.join(SPEC, 'mesh', extra), dump=True, timeout=3000, heap='12g')
        chk.tlc(extra, res, 'region growing = connected components on fields whose maximum is not positive / of mixed sign')
        if res.violated:
            chk.machinery.append('model invariant %s violated: %s' % (res.violated, res.trace[-1:]))
        if res.dump_path and os.path.exists(res.dump_path):
            tot = 0
            for n, nontriv, viol, samples in par.pmap(_replay_hotspot, [(p, chk.seed * 100 + 50 + i) for i, p in enumerate(par.split_dump(res.dump_path, 32))], chunksize=1):
                tot += n
                for x in nontriv:
                    chk.nontrivial(x)
                for what, case, exp, got in viol:
                    chk.violation(what, case, exp, got, part='hotspot_nonpositive')
            chk.evals(tot)
            chk.cov['traces_validated_against_impl'] += tot
            chk.part('hotspot_' + extra, fields=tot)
            os.remove(res.dump_path)
    res = tlc.run(MO_TLA, os.path.join(SPEC, 'mesh', 'MC_MeshOps_%s.cfg' % tier), dump=True, timeout=3000)
    chk.tlc('MC_MeshOps_%s.cfg' % tier, res, 'block meshes x node numbering x element numbering x row order; boundary node set')
    if res.violated:
        chk.machinery.append('model invariant %s violated: %s' % (res.violated, res.trace[-1:]))
    if res.violated and res.dump_path and os.path.exists(res.dump_path):
        os.remove(res.dump_path)          # TLC stops at the violation: the dump is incomplete (its last state truncated) and is not replayed
    if res.dump_path and os.path.exists(res.dump_path):
        parts = par.split_dump(res.dump_path, 48)
        tot = 0
        for n, nontriv, viol, known, samples in par.pmap(_replay_meshops, [(p, fs) for p in parts], chunksize=1):
            tot += n
            for x in nontriv:
                chk.nontrivial(x)
            for s in samples[:1]:
                chk.sample(s, cap=4)
            for m in known:
                if m not in chk.known:
                    chk.known.append(m)
            for what, case, exp, got in viol:
                chk.violation(what, case, exp, got, part='meshops')
        chk.evals(tot)
        chk.cov['traces_validated_against_impl'] += tot
        chk.part('meshops', configurations=tot)
        os.remove(res.dump_path)
    chk.cov['rule'] = ('Hot spot: TLC enumerates every field on <= MaxEntries (element, node) incidences of a NE x NN incidence grid with values in {1,2,4} (ties, entries exactly on the threshold) '
                       'and 4 threshold fractions, proves region growing = connected components; every field is evaluated by df.hotspot.calc under arbitrary ids and shuffled rows. '
                       'Mesh operators: TLC enumerates block meshes x node numbering (contiguous, gaps, reversed, scattered) x element numbering x row order; for each the harness builds hexahedral, '
                       '6-tetrahedra-split and mixed meshes with perturbed nodes and 2 linear fields and checks gradient_3D, the least-squares gradient, surface detection and mesh mapping '
                       '(same points, interior points, a plane z = const). Non-trivial: hot-spot fields with >= 2 hot spots; mesh configurations with non-default numbering/order.')
    chk.cov['rule'] += ' Also: interleaved rows on the regular grid, offset numbering, a second length unit (edges 2.4e-4), kept gradient accessors / kept mapper with a second source, hot-spot fields with non-positive maximum.'
    chk.cov['exhaustive'] = True
    chk.assumptions += ['gradient / mapping expectations are exact for linear fields; compared at 1e-9 / 1e-8',
                        'surface detection checked on unperturbed blocks (planar faces)']


def replay(chk, path):
    print(open(path).read())
    return 0

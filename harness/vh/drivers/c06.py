"""C06 — notch approximation laws return the root of their equation, and its inverse."""
import os, math, random, warnings
from fractions import Fraction
import numpy as np
import pandas as pd
from .. import SPEC, tlc, par, findings
from ..tlaparse import parse_state

LEVEL = 'model_checking'
TLA = os.path.join(SPEC, 'notch', 'MC_Neuber.tla')
TRACE_TLA = os.path.join(SPEC, 'notch', 'Trace_Notch.tla')
TRACE_CFG = os.path.join(SPEC, 'notch', 'Trace_Notch.cfg')
TOLS = ((1e-4, 1e-4), (1e-10, 1e-10))        # (rtol, tol): the default and the tightest requested
BAD = -2000000000                             # micro-log value of something that is not a positive finite number


def lg(x):
    try:
        x = abs(float(x))
    except Exception:
        return BAD
    if not (x > 0 and math.isfinite(x)):
        return BAD
    return int(round(2 ** 20 * math.log2(x)))


def scalar(x):
    a = np.asarray(x, dtype=np.float64).ravel()
    return float(a[0])


# ------------------------------------------------------------------ exact lattice (ExtendedNeuber, n' = 1/m)
def check_exact(st):
    from pylife.materiallaws.notch_approximation_law import ExtendedNeuber
    m, kp, q, l, e = st['m'], Fraction(*st['kp']), Fraction(*st['q']), Fraction(*st['l']), Fraction(*st['e'])
    viol, n, raised = [], 0, 0
    for Kprime in (1000.0, 352.0):
        E, sig, L = float(e) * Kprime, float(q) * Kprime, float(l) * Kprime
        eps = sig / E + (sig / Kprime) ** m
        case = {'E': E, "K'": Kprime, "n'": '1/%d' % m, 'K_p': float(kp), 'load': L, 'exact_stress': sig}
        law = ExtendedNeuber(E, Kprime, 1.0 / m, float(kp))
        # the same material reached through the parameter setters of an object built with other values
        try:
            others = []
            l2 = ExtendedNeuber(E, 2.0 * Kprime, 1.0 / m, float(kp)); l2.K = Kprime; others.append(('K', l2))
            l3 = ExtendedNeuber(E, 0.5 * Kprime, 1.0 / m, float(kp)); l3.K_prime = Kprime; others.append(('K_prime', l3))
            l4 = ExtendedNeuber(E, Kprime, 1.0 / m, float(kp) + 1.5); l4.K_p = float(kp); others.append(('K_p', l4))
            with warnings.catch_warnings():
                warnings.simplefilter('ignore')
                for nm, lw in others:
                    got = scalar(lw.stress(L, rtol=1e-10, tol=1e-10))
                    if not abs(got - sig) <= 4e-10 * (1 + abs(sig)):
                        viol.append(('after setting %s on an existing law object the stress is not the root for the current parameters' % nm, case, sig, got))
        except Exception:
            raised += 1
        for rtol, tol in TOLS:
            n += 1
            band = lambda x, f=1.0: 2 * f * (tol + rtol * abs(x)) + 1e-12 * abs(x)
            cs = {**case, 'rtol': rtol, 'tol': tol}
            try:
                with warnings.catch_warnings():
                    warnings.simplefilter('ignore')
                    s = scalar(law.stress(L, rtol=rtol, tol=tol))
                    sn = scalar(law.stress(-L, rtol=rtol, tol=tol))
                    d = scalar(law.stress_secondary_branch(2 * L, rtol=rtol, tol=tol))
                    arr = np.asarray(law.stress(np.array([L, 1.25 * L]), rtol=rtol, tol=tol), dtype=np.float64)
                    ser = law.stress(pd.Series([L, 1.25 * L], index=pd.Index([7, 3], name='node_id')), rtol=rtol, tol=tol)
                    strain = scalar(law.strain(s, L))
                    dstrain = scalar(law.strain_secondary_branch(d, 2 * L))
            except Exception as ex:
                raised += 1
                continue
            if not abs(s - sig) <= band(sig):
                viol.append(('stress(load) is not the exact root of eq. 2.5-45 within the requested tolerance', cs, sig, s))
            if not abs(sn + s) <= 1e-12 * abs(s):
                viol.append(('stress is not odd in the load', cs, -s, sn))
            if not abs(d - 2 * sig) <= band(2 * sig):
                viol.append(('stress range for the load range 2L is not the Masing-doubled root 2 sigma', cs, 2 * sig, d))
            if not (L / float(kp) - band(sig) <= s <= L + band(sig)):
                viol.append(('stress not between load/K_p and load', cs, [L / float(kp), L], s))
            if not (abs(arr[0] - s) <= band(sig) and abs(scalar(np.asarray(ser)[0]) - s) <= band(sig) and abs(arr[1] - scalar(np.asarray(ser)[1])) <= band(arr[1])
                    and (not isinstance(ser, pd.Series) or list(ser.index) == [7, 3])):
                viol.append(('array / Series input answers differently from the scalar input', cs, s, [arr.tolist(), np.asarray(ser).tolist()]))
            # an exact zero among the loads of an array must not disturb its neighbours (and answers 0)
            try:
                with warnings.catch_warnings():
                    warnings.simplefilter('ignore')
                    az = np.asarray(law.stress(np.array([0.0, L, -L]), rtol=rtol, tol=tol), dtype=np.float64)
                    dz = np.asarray(law.stress_secondary_branch(np.array([2 * L, 0.0]), rtol=rtol, tol=tol), dtype=np.float64)
                if not (az[0] == 0.0 and abs(az[1] - sig) <= band(sig) and abs(az[2] + sig) <= band(sig) and abs(dz[0] - 2 * sig) <= band(2 * sig) and dz[1] == 0.0):
                    viol.append(('an array containing a zero load answers differently from the scalar inputs', cs, [0.0, sig, -sig, 2 * sig, 0.0], az.tolist() + dz.tolist()))
            except Exception:
                raised += 1
            if not abs(strain - (s / E + (abs(s) / Kprime) ** m)) <= 1e-12 * abs(eps):
                viol.append(('strain(stress, load) is not the Ramberg-Osgood strain of the stress', cs, s / E + (abs(s) / Kprime) ** m, strain))
            if not abs(dstrain - 2 * ((d / 2) / E + (abs(d / 2) / Kprime) ** m)) <= 1e-12 * abs(2 * eps):
                viol.append(('strain range is not the Masing-doubled Ramberg-Osgood curve', cs, 2 * ((d / 2) / E + (abs(d / 2) / Kprime) ** m), dstrain))
            # backward functions at the exact stress
            try:
                with warnings.catch_warnings():
                    warnings.simplefilter('ignore')
                    lb = scalar(law.load(sig, rtol=rtol, tol=tol))
                    lbs = scalar(law.load_secondary_branch(2 * sig, rtol=rtol, tol=tol))
                if not abs(lb - L) <= band(L, 2):
                    viol.append(('load(stress) is not the load whose root the stress is', cs, L, lb))
                if not abs(lbs - 2 * L) <= band(2 * L, 2):
                    viol.append(('load range of the stress range 2 sigma is not 2L', cs, 2 * L, lbs))
                # array inputs of the backward functions (a solver that does not converge returns its last iterate for arrays, with a warning only)
                la = np.asarray(law.load(np.array([sig, -sig]), rtol=rtol, tol=tol), dtype=np.float64)
                lsa = np.asarray(law.load_secondary_branch(np.array([2 * sig, -2 * sig]), rtol=rtol, tol=tol), dtype=np.float64)
                if not (abs(la[0] - L) <= band(L, 2) and abs(la[1] + L) <= band(L, 2) and abs(lsa[0] - 2 * L) <= band(2 * L, 2) and abs(lsa[1] + 2 * L) <= band(2 * L, 2)):
                    viol.append(('backward functions with array input do not return the loads whose roots the stresses are', cs, [L, -L, 2 * L, -2 * L], la.tolist() + lsa.tolist()))
                lbn = scalar(law.load(-sig, rtol=rtol, tol=tol))
                lbsn = scalar(law.load_secondary_branch(-2 * sig, rtol=rtol, tol=tol))
                if not (abs(lbn + L) <= band(L, 2) and abs(lbsn + 2 * L) <= band(2 * L, 2)):
                    viol.append(('backward functions are not odd: load(-sigma) != -L or load range of -2 sigma != -2L', cs, [-L, -2 * L], [lbn, lbsn]))
            except Exception:
                raised += 1
            # strictly increasing: the roots for the larger loads of the lattice lie strictly above sigma (exact in the model)
            if rtol == 1e-10:
                for l2 in sorted(Fraction(*x) for x in st['above']):
                    try:
                        with warnings.catch_warnings():
                            warnings.simplefilter('ignore')
                            s2 = scalar(law.stress(float(l2) * Kprime, rtol=rtol, tol=tol))
                    except Exception:
                        raised += 1
                        continue
                    if not s2 > sig + 0 * band(sig):
                        viol.append(('stress for a larger load is not above the exact root of the smaller load (not strictly increasing)', {**cs, 'larger_load': float(l2) * Kprime}, '> %r' % sig, s2))
    return n, raised, viol


def _replay_exact(blocks):
    n, raised, nontriv, viol, samples = 0, 0, [], [], []
    for b in blocks:
        st = parse_state(b.strip())
        k, r, v = check_exact(st)
        n += k
        raised += r
        viol += v
        if st['kp'] != (1, 1):
            nontriv.append((st['m'], st['kp'], st['q'], st['l']))
        if not samples and st['kp'] != (1, 1):
            samples.append({'m': st['m'], 'K_p': st['kp'], 'stress_over_Kprime': st['q'], 'load_over_Kprime': st['l'], 'E_over_Kprime_exact': st['e']})
    return n, raised, nontriv, viol[:6], samples


# ------------------------------------------------------------------ recorded walks, realistic materials, both laws
MATERIALS = [  # E, K', n' — FKM nonlinear estimates for steel (R_m = 600 / 1200), cast steel (R_m = 500), wrought aluminium (R_m = 300)
    (206000.0, 1184.5, 0.187), (206000.0, 2205.4, 0.187), (206000.0, 1010.2, 0.176), (70000.0, 512.3, 0.128)]


def _ro(s, E, K, n):
    return s / E + math.copysign((abs(s) / K) ** (1.0 / n), s)


def _f(law_id, s, L, E, K, n, kp, secondary):
    """The harness' own transcription of eq. 2.5-45/46 (extended Neuber) and 2.8-42/43 (Seeger-Beste); secondary = Masing-doubled curves."""
    ro = (lambda x: 2 * _ro(x / 2, E, K, n)) if secondary else (lambda x: _ro(x, E, K, n))
    neuber = (L / s) * kp * ro(L / kp)
    if law_id == 'EN':
        return ro(s) - neuber
    u = math.pi / 2 * ((L / s - 1) / (kp - 1))
    # (2/u^2) ln(1/cos u) = 1 + u^2/6 + 2u^4/45 + 17u^6/1260 + ...: the closed form cancels catastrophically for small u
    lncos = 2 / u ** 2 * math.log(1 / math.cos(u)) if abs(u) > 1e-2 else 1 + u ** 2 / 6 + 2 * u ** 4 / 45 + 17 * u ** 6 / 1260
    mid = lncos + (s / L) ** 2 - s / L
    return ro(s) - mid * neuber


def _res(law_id, s, L, E, K, n, kp, secondary, rtol, tol):
    """Residual as equivalent stress error in thousandths of the requested tolerance."""
    try:
        h = 1e-6 * abs(s)
        f0 = _f(law_id, s, L, E, K, n, kp, secondary)
        d = (_f(law_id, s + h, L, E, K, n, kp, secondary) - _f(law_id, s - h, L, E, K, n, kp, secondary)) / (2 * h)
        err = abs(f0 / d)
        return int(min(10 ** 6, math.ceil(1000 * err / (tol + rtol * abs(s)))))
    except Exception:
        return 10 ** 6


def _walk(args):
    law_id, mat, kp, (rtol, tol), fracs = args
    from pylife.materiallaws.notch_approximation_law import ExtendedNeuber
    from pylife.materiallaws.notch_approximation_law_seegerbeste import SeegerBeste
    E, K, n = mat
    law = (ExtendedNeuber if law_id == 'EN' else SeegerBeste)(E, K, n, kp)
    steps, nraised = [], 0
    smin = None
    # the whole load range of the walk in ONE long vector (a load collective / a field of a model): 400 loads plus the walk's own, as an array and as
    # a Series whose integer labels are a permutation of the positions; every element must be the answer the load gets in the short calls of the walk
    # and a root of the defining equation
    grid = np.unique(np.concatenate([np.linspace(0.01, 1.1 * max(fracs), 400) * K, [fr * K for fr in fracs]]))
    labels = ((np.arange(len(grid)) * 7 + 3) % len(grid)) if len(grid) % 7 else np.arange(len(grid))[::-1]      # a permutation of 0..n-1: every position is also a label, of another row
    batch = {}
    bres = {'P': 0, 'S': 0}
    with warnings.catch_warnings():
        warnings.simplefilter('ignore')
        for key, fn, fac in (('P', law.stress, 1.0), ('S', law.stress_secondary_branch, 2.0)):
            for form in ('arr', 'ser'):
                try:
                    inp = fac * grid if form == 'arr' else pd.Series(fac * grid, index=pd.Index(labels, name='class'))
                    out = fn(inp, rtol=rtol, tol=tol)
                    if isinstance(out, pd.Series) and list(out.index) != list(inp.index):      # (Seeger-Beste answers a Series with a bare array: taken by position)
                        batch[key + form] = np.full(len(grid), np.nan)
                        continue
                    vals = np.asarray(out, dtype=np.float64)
                    batch[key + form] = vals
                    for x, v in zip(grid, vals):
                        bres[key] = max(bres[key], _res(law_id, float(v), fac * float(x), E, K, n, kp, key == 'S', rtol, tol) if v == v and v > 0 else 10 ** 6)
                except Exception:
                    nraised += 1
                    batch[key + form] = None
    with warnings.catch_warnings():
        warnings.simplefilter('ignore')
        for fr in fracs:
            L = fr * K
            st = {'lgL': lg(L), 'raised': False}
            gi = int(np.argmin(np.abs(grid - L)))
            try:
                # two-element arrays are the least common denominator of both laws (SeegerBeste raises TypeError for scalars and one-element
                # arrays on the unchanged tree: scipy then returns a RootResults object — such calls are counted, not failed)
                pair = lambda x: np.array([x, 0.5 * x], dtype=np.float64)
                s = scalar(law.stress(pair(L), rtol=rtol, tol=tol))
                forms = []
                for inp in (L, np.array([L], dtype=np.float64)):
                    try:
                        forms.append(lg(scalar(law.stress(inp, rtol=rtol, tol=tol))))
                    except Exception:
                        nraised += 1
                ser = law.stress(pd.Series([L, 0.5 * L], index=pd.Index([4, 9], name='node_id')), rtol=rtol, tol=tol)
                forms.append(lg(np.asarray(ser)[0]))
                multi = np.asarray(law.stress(np.array([0.5 * L, L, 0.25 * L]), rtol=rtol, tol=tol), dtype=np.float64)
                forms.append(lg(multi[1]))
                try:       # an exact zero among the loads
                    withzero = np.asarray(law.stress(np.array([0.0, L, 0.5 * L]), rtol=rtol, tol=tol), dtype=np.float64)
                    forms.append(lg(withzero[1]) if (withzero[0] == 0.0 or withzero[0] != withzero[0]) else BAD)     # the zero itself: 0, or NaN (Seeger-Beste: 0/0 in its equation — observation O11, not a returned stress)
                except Exception:
                    nraised += 1
                for k2 in ('Parr', 'Pser'):
                    if batch.get(k2) is not None:
                        forms.append(lg(batch[k2][gi]))
                sn = scalar(law.stress(pair(-L), rtol=rtol, tol=tol))
                d = scalar(law.stress_secondary_branch(pair(2 * L), rtol=rtol, tol=tol))
                st['formsD'] = [lg(batch[k2][gi]) for k2 in ('Sarr', 'Sser') if batch.get(k2) is not None]
                eps = scalar(law.strain(pair(s), pair(L)))
                deps = scalar(law.strain_secondary_branch(pair(d), pair(2 * L)))
                st.update({'lgS': lg(s), 'lgSneg': lg(sn), 'signs_ok': bool(s > 0 and sn < 0 and d > 0), 'lgD': lg(d), 'forms': forms,
                           'lgEps': lg(eps), 'lgEpsRO': lg(_ro(s, E, K, n)), 'lgDEps': lg(deps), 'lgDEpsRO': lg(2 * _ro(d / 2, E, K, n)),
                           'resP': _res(law_id, s, L, E, K, n, kp, False, rtol, tol), 'resS': _res(law_id, d, 2 * L, E, K, n, kp, True, rtol, tol)})
                try:
                    st['lgLb'] = lg(scalar(law.load(s, rtol=rtol, tol=tol)))
                except Exception:
                    nraised += 1
                    st['lgLb'] = 0
                try:
                    st['lgLbs'] = lg(scalar(law.load_secondary_branch(d, rtol=rtol, tol=tol)))
                except Exception:
                    nraised += 1
                    st['lgLbs'] = 0
                st['lgLbArr'] = st['lgLbsArr'] = 0
                if law_id == 'EN':      # array inputs of the backward functions (extended Neuber; Seeger-Beste documents them for scalars only)
                    try:
                        st['lgLbArr'] = lg(np.asarray(law.load(np.array([s, 0.5 * s]), rtol=rtol, tol=tol), dtype=np.float64)[0])
                    except Exception:
                        nraised += 1
                    try:
                        st['lgLbsArr'] = lg(np.asarray(law.load_secondary_branch(np.array([d, 0.5 * d]), rtol=rtol, tol=tol), dtype=np.float64)[0])
                    except Exception:
                        nraised += 1
                try:       # backward functions for the mirrored stress: magnitude as logged value, sign folded into signs_ok
                    lbn = scalar(law.load(sn, rtol=rtol, tol=tol))
                    st['lgLbneg'] = lg(lbn)
                    st['signs_ok'] = bool(st['signs_ok'] and lbn < 0)
                except Exception:
                    nraised += 1
                    st['lgLbneg'] = 0
                smin = abs(s) if smin is None else min(smin, abs(s))
            except Exception as ex:
                nraised += 1
                st = {'lgL': lg(L), 'raised': True, 'lgS': 0, 'lgSneg': 0, 'signs_ok': True, 'lgD': 0, 'forms': [], 'lgEps': 0, 'lgEpsRO': 0, 'lgDEps': 0, 'lgDEpsRO': 0,
                      'resP': 0, 'resS': 0, 'lgLb': 0, 'lgLbs': 0, 'lgLbneg': 0, 'lgLbArr': 0, 'lgLbsArr': 0, 'formsD': [], 'error': repr(ex)[:120]}
            steps.append(st)
    smin = smin or 1.0
    tau = int(math.ceil(2 ** 20 * math.log2(1 + 4 * (rtol + tol / smin)))) + 2
    for st in steps:
        st.setdefault('formsD', [])
    return {'law': law_id, 'lgKp': lg(kp) if kp != 1 else 0, 'tau': tau, 'bresP': bres['P'], 'bresS': bres['S'], 'steps': steps,
            'material': {'E': E, "K'": K, "n'": n, 'K_p': kp, 'rtol': rtol, 'tol': tol}, 'load_fractions_of_Kprime': list(fracs)}, nraised


def run(chk):
    quick = chk.tier == 'quick'
    cfgname = 'MC_Neuber_quick.cfg' if quick else 'MC_Neuber_thorough.cfg'
    res = tlc.run(TLA, os.path.join(SPEC, 'notch', cfgname), dump=True, timeout=900)
    chk.tlc(cfgname, res, 'extended Neuber on a rational lattice (n\' = 1/m): the constructed stress is the exact root of the coded implicit function; odd; Masing-doubled secondary root; bracket; strictly increasing')
    if res.violated:
        chk.machinery.append('model invariant %s violated: %s' % (res.violated, res.trace[-1:]))
    raised = 0
    if res.dump_path and os.path.exists(res.dump_path):
        tot = 0
        for n, r, nontriv, viol, samples in par.pmap(_replay_exact, par.split_dump(res.dump_path, 32), chunksize=1):
            tot += n
            raised += r
            for x in nontriv:
                chk.nontrivial(('exact',) + tuple(x))
            for s in samples[:1]:
                chk.sample(s, cap=2)
            for what, case, exp, got in viol:
                chk.violation(what, case, exp, got, part='exact')
        chk.evals(tot)
        chk.cov['traces_validated_against_impl'] += tot
        chk.part('exact_roots', evaluations=tot, solver_raised=raised)
        os.remove(res.dump_path)
    # recorded walks
    rng = random.Random(chk.seed * 7 + 6)
    jobs = []
    kps = {'EN': [1.0, 1.2, 2.0, 3.5, 8.0, 50.0], 'SB': [1.2, 2.0, 3.5, 8.0, 15.0, 50.0]}
    for law_id in ('EN', 'SB'):
        for mat in MATERIALS if not quick else MATERIALS[:1] + MATERIALS[3:]:
            for kp in kps[law_id]:
                for tols in TOLS:
                    base = [0.02, 0.08, 0.2, 0.4, 0.7, 1.0, 1.5, 2.0] if quick else [0.01, 0.02, 0.05, 0.08, 0.13, 0.2, 0.3, 0.4, 0.55, 0.7, 0.85, 1.0, 1.25, 1.5, 2.0]
                    fracs = sorted(f * (1 + 0.2 * rng.random()) for f in base)
                    jobs.append((law_id, mat, kp, tols, fracs))
    results = par.pmap(_walk, jobs, chunksize=1)
    traces = [r[0] for r in results]
    raised_w = sum(r[1] for r in results)
    out = tlc.validate_traces(TRACE_TLA, TRACE_CFG, [{k: t[k] for k in ('law', 'lgKp', 'tau', 'bresP', 'bresS', 'steps')} for t in traces], 'c06', nsplit=6)
    chk.cov['states'] += out['states']
    chk.cov['transitions'] += out['generated']
    for e in out['errors']:
        chk.machinery.append('trace validation: ' + e)
    acc = 0
    for t, v in zip(traces, out['verdicts']):
        chk.evals(len(t['steps']))
        if v is None:
            if not out['errors']:
                chk.machinery.append('no verdict for walk %s' % (t['material'],))
            continue
        steps, clause = v[0], v[1]
        if clause == 'ok':
            acc += 1
        else:
            s = t['steps'][steps - 1]
            chk.violation('recorded walk of the %s law rejected by the specification: %s at load step %d' % ({'EN': 'extended Neuber', 'SB': 'Seeger-Beste'}[t['law']], clause, steps),
                          {**t['material'], 'load': t['load_fractions_of_Kprime'][steps - 1] * t['material']["K'"]}, None, {k: v_ for k, v_ in s.items()}, part='walk')
    # known finding C06-SB-Kp-near-1 (Seeger-Beste with K_p within 0.2 % of 1 is not walked: eq. 2.8-42 has two roots there that merge as K_p -> 1 and the
    # iteration is ill-conditioned): its witness is evaluated; anything else about such K_p is outside what the walks decide
    for f in findings.load('C06'):
        if f['id'] == 'C06-SB-Kp-near-1':
            try:
                from pylife.materiallaws.notch_approximation_law_seegerbeste import SeegerBeste
                with warnings.catch_warnings():
                    warnings.simplefilter('ignore')
                    Lw = 566.4825691875806
                    sw = float(np.asarray(SeegerBeste(206000.0, 1184.5, 0.187, 1.001).stress(np.array([Lw, 283.2]), rtol=1e-10, tol=1e-10))[0])
                chk.evals(1)
                if sw > Lw * (1 + 1e-9):
                    chk.known.append('%s: %s' % (f['id'], f['symptom']))
            except Exception:
                pass
    chk.cov['traces_validated_against_impl'] += acc
    chk.part('walks', walks=len(traces), accepted=acc, solver_raised=raised_w, tlc_states=out['states'], wall_s=round(out['wall'], 1))
    if traces:
        t = traces[0]
        chk.sample({'recorded_walk': {'law': t['law'], 'material': t['material'], 'tau_micro_log': t['tau'], 'first_steps': t['steps'][:2]}}, cap=4)
    chk.cov['solver_raised_counted_not_failed'] = raised + raised_w
    chk.cov['rule'] = ('(T) TLC enumerates (m, K_p, stress/K\', load/stress) on a rational lattice and constructs the stiffness ratio E/K\' for which the stress is the EXACT root of the coded implicit '
                       'function (n\' = 1/m), proving root / oddness / Masing doubling / bracket / monotonicity exactly; every state is replayed into ExtendedNeuber for two K\' and both tolerances '
                       '(stress, secondary branch, strain, backward functions, scalar/array/Series). (M) for FKM-estimate materials (steel, cast steel, aluminium), K_p in {1, 1.2, 2, 3.5, 8, 50} (Seeger-Beste: 1.2 ... 8, 15, 50), both laws and both '
                       'tolerances an ascending load walk is recorded, plus the whole load range in one vector of 400 loads as array and as Series with permuted labels (all observables as micro-log integers, residual of the harness\' own transcription of the defining equation) and validated by Trace_Notch.tla. '
                       'Non-trivial = K_p > 1 lattice states, walks with at least one answered step.')
    chk.cov['exhaustive'] = True
    chk.assumptions += ['(T) only for n\' = 1/m (m = 2..4), where the root is rational; realistic n\' are covered by the recorded walks, whose root clause relies on the harness\' transcription of eq. 2.5-45/46 and 2.8-42/43',
                        '"within the requested tolerance" is read as: stress error at most 2 (tol + rtol |stress|); backward functions 4x; inputs on which the solver raises are counted, not failed',
                        'array inputs with several elements may be iterated further than a scalar input: container forms are compared within the requested tolerance, not bitwise']


def replay(chk, path):
    print(open(path).read())
    return 0

"""C05 — HCM stress-strain bookkeeping, point by point; batch = alone; negation mirrors."""
import os, random, warnings
import numpy as np
from .. import SPEC, tlc, par, hcm
from ..tlaparse import parse_state
from . import c04

LEVEL = 'model_checking'
TLA = os.path.join(SPEC, 'hcm', 'MC_HCM.tla')
TRACE_TLA = os.path.join(SPEC, 'hcm', 'Trace_HCM.tla')
LAWS = {'lin': 1, 'cubic': 2, 'asym': 1}      # law -> load scale of the model instance
warnings.filterwarnings('ignore', category=RuntimeWarning)


def run_single(seq, law):
    try:
        return hcm.project(hcm.two_pass(seq, law))
    except Exception as ex:
        return {'raised': repr(ex)}


def run_batch(seq, scales, law, node_ids=None, labels=None):
    try:
        return hcm.project(hcm.two_pass_multi(seq, scales, law, node_ids, labels), npoints=len(scales))
    except Exception as ex:
        return {'raised': repr(ex)}


def point_of(pb, i):
    """Projection of point i out of a batch projection (rows only; the strain list is kept for the first point only by the detector)."""
    rows = []
    for r in pb['rows']:
        rows.append({k: (v[i] if isinstance(v, list) else v) for k, v in r.items()})
    return rows


def mirror(p):
    rows = []
    for r in p['rows']:
        m = dict(r)
        for lo, hi in (('loads_min', 'loads_max'), ('S_min', 'S_max'), ('epsilon_min', 'epsilon_max'), ('epsilon_min_LF', 'epsilon_max_LF')):
            m[lo], m[hi] = _neg(r[hi]), _neg(r[lo])
        m['S_m'], m['epsilon_m'] = _neg(r['S_m']), _neg(r['epsilon_m'])
        m['R'] = None   # R = S_min/S_max is not mirrored in a simple way (1/R); compared separately
        rows.append(m)
    return {'rows': rows, 'strains': [_neg(x) for x in p['strains']], 'strains_first': [_neg(x) for x in p['strains_first']],
            'strains_second': [_neg(x) for x in p['strains_second']]}


def _neg(x):
    return x if isinstance(x, str) else (0 if x == 0 else -x)


def rows_equal(a, b, skip=()):
    if len(a) != len(b):
        return False
    for x, y in zip(a, b):
        for k in x:
            if k in skip or y.get(k) is None or x.get(k) is None:
                continue
            if x[k] != y[k]:
                return False
    return True


def _replay_blocks(args):
    blocks, law, scale, seed = args
    rng = random.Random(seed)
    n, nontriv, drift, viol, samples = 0, [], [], [], []
    for b in blocks:
        st = parse_state(b.strip())
        s, out = st['s'], st['out']
        if not st['per']:
            continue
        seq = [scale * x for x in s]
        n += 1
        exp = hcm.model_rows(out)
        got = run_single(seq, law)
        case = {'sequence': seq, 'law': law}
        if 'raised' in got:
            viol.append(('detector raised ' + got['raised'], case, None, got))
            continue
        if not rows_equal(got['rows'], exp['rows']):
            bad = next((i for i, (x, y) in enumerate(zip(got['rows'], exp['rows'])) if x != y), min(len(got['rows']), len(exp['rows'])))
            viol.append(('recorded hysteresis %d differs from the HCM procedure of the specification' % bad, case,
                         exp['rows'][bad] if bad < len(exp['rows']) else 'no such row', got['rows'][bad] if bad < len(got['rows']) else 'no such row'))
        elif got['strains'] != exp['strains'] or got['strains_first'] != exp['strains_first'] or got['strains_second'] != exp['strains_second']:
            viol.append(('visited strain values differ', case, {k: exp[k] for k in ('strains', 'strains_first', 'strains_second')},
                         {k: got[k] for k in ('strains', 'strains_first', 'strains_second')}))
        # negation mirrors (on the code)
        if law != 'asym' and rng.random() < 0.3:   # asym is not Masing-consistent: the mirror theorem does not hold for it (DESIGN 5 C05)
            neg = run_single([-x for x in seq], law)
            n += 1
            if 'raised' in neg or not rows_equal(neg['rows'], mirror(got)['rows']) or neg['strains'] != mirror(got)['strains']:
                viol.append(('negating the loads does not mirror stresses/strains', case, mirror(got)['rows'], neg.get('rows', neg)))
        # batch = alone (decisions from the first point, values per point)
        if rng.random() < 0.12 and len(out['rows']) > 0:
            scales = rng.choice([(1, 2, 3), (1, 0.5), (2, 1), (3, 1, 2), (1, 1)])
            ids = rng.choice([None, [5, 3, 9][:len(scales)], [1, 2, 3][:len(scales)]])
            nn = len(seq)
            labels = rng.choice([None, list(range(nn, 0, -1)), rng.sample(range(10, 10 + 3 * nn), nn), [7 * i + 1 for i in range(nn)]])
            pb = run_batch(seq, scales, law, ids, labels)
            n += 1
            # NOTE: batches fed through raw process(chunk, flush) calls are NOT checked: on the unchanged tree that path
            # raises / mis-assigns for many histories and C05 does not quantify over chunkings (DESIGN 5 C05, observation O1)
            if 'raised' in pb:
                viol.append(('batch of proportional points raised ' + pb['raised'], {**case, 'scales': scales, 'node_ids': ids, 'load_step_labels': labels}, None, pb))
            else:
                for i, c in enumerate(scales):
                    alone = run_single([c * x for x in seq], law)
                    if 'raised' in alone or not rows_equal(point_of(pb, i), alone['rows']):
                        viol.append(('point %d of a batch differs from the same point processed alone' % i, {**case, 'scales': scales, 'node_ids': ids, 'load_step_labels': labels},
                                     alone.get('rows', alone), point_of(pb, i)))
                        break
        if len(out['rows']) >= 2:
            nontriv.append((law, s))
        if not samples and len(out['rows']) >= 3:
            samples.append({'law': law, 'sequence': seq, 'expected_rows': exp['rows'][:3], 'expected_strains': exp['strains']})
    return n, nontriv, drift[:5], viol[:5], samples


def _replay_chunks_blocks(blocks):
    """Extension: FKMNonlinearDetector.process() fed in chunks (single point, linear law; for the non-Masing law 'asym' the running extremes DO depend on the chunking because previous_load restarts at 0 in every call -- model result, no admissible material); differences are drift."""
    n, drift = 0, []
    for b in blocks:
        st = parse_state(b.strip())
        fed, cuts = st['fed'], st['cuts']
        if not fed:
            continue
        n += 1
        try:
            got = hcm.project(hcm.history_single(list(fed), 'lin', list(cuts), [False] * len(cuts)))
            exp = hcm.model_rows(st['st'])
            if (not rows_equal(got['rows'], exp['rows']) or got['strains'] != exp['strains']) and len(drift) < 3:
                drift.append('chunked HCM process(): sequence %s chunks %s: code rows %s model rows %s' % (fed, cuts, got['rows'][-1:], exp['rows'][-1:]))
        except Exception as ex:
            if len(drift) < 3:
                drift.append('chunked HCM process(): sequence %s chunks %s raised %r' % (fed, cuts, ex))
    return n, drift


def _units(x, scale):
    return int(round(float(x) * scale))


def real_law_traces(chk, quick):
    """The recorder content produced with REAL laws (Binned ExtendedNeuber / Binned SeegerBeste, as the assessment uses them) must be the
    content the HCM specification produces when its four law operators are the argument -> result tables of that law object
    (stress in milli-MPa, strain in nano-strain, integer loads; Trace_HCM with LawId = "table", tolerance Tol units)."""
    import pandas as pd
    from pylife.materiallaws.notch_approximation_law import ExtendedNeuber, Binned
    from pylife.materiallaws.notch_approximation_law_seegerbeste import SeegerBeste
    LMAX, STEP = 400, 20
    rng = random.Random(chk.seed * 733 + 5)
    for lname, mk in (('Binned(ExtendedNeuber)', lambda: Binned(ExtendedNeuber(E=206e3, K=1184., n=0.187, K_p=3.5), float(LMAX), 25)),
                      ('Binned(SeegerBeste)', lambda: Binned(SeegerBeste(E=206e3, K=1184., n=0.187, K_p=3.5), float(LMAX), 25))):
        try:
            law = mk()
            tab = {'psig': {}, 'peps': {}, 'ssig': {}, 'seps': {}}
            for L in range(-LMAX, LMAX + 1, STEP):
                sg = law.stress(pd.Series([float(L)]))
                tab['psig'][str(L)] = _units(np.ravel(sg)[0], 1e3)
                tab['peps'][str(L)] = _units(np.ravel(law.strain(sg, pd.Series([float(L)])))[0], 1e9)
            for d in range(-2 * LMAX, 2 * LMAX + 1, STEP):
                sg = law.stress_secondary_branch(pd.Series([float(d)]))
                tab['ssig'][str(d)] = _units(np.ravel(sg)[0], 1e3)
                tab['seps'][str(d)] = _units(np.ravel(law.strain_secondary_branch(sg, pd.Series([float(d)])))[0], 1e9)
        except Exception as ex:
            chk.violation('real law %s could not be tabulated: %r' % (lname, ex), {'law': lname}, part='real_law')
            continue
        traces, meta = [], []
        for i in range(12 if quick else 80):
            n = rng.randint(3, 14)
            seq = [STEP * v for v in c04.random_sequence(rng, n, LMAX // STEP)]
            try:
                det = hcm.new_detector(mk())
                arr = np.asarray(seq, dtype=np.float64)
                ev = []
                for call in ('first', 'second'):
                    (det.process_hcm_first if call == 'first' else det.process_hcm_second)(arr)
                    c = det.recorder.collective
                    rows = [{'lmin': _units(r.loads_min, 1), 'lmax': _units(r.loads_max, 1), 'smin': _units(r.S_min, 1e3), 'smax': _units(r.S_max, 1e3),
                             'emin': _units(r.epsilon_min, 1e9), 'emax': _units(r.epsilon_max, 1e9), 'eminLF': _units(r.epsilon_min_LF, 1e9), 'emaxLF': _units(r.epsilon_max_LF, 1e9),
                             'closed': bool(r.is_closed_hysteresis), 'zero': bool(r.is_zero_mean_stress_and_strain), 'run': int(r.run_index)} for r in c.itertuples()]
                    ev.append({'call': call, 'samples': [int(x) for x in seq], 'flush': False, 'rows': rows,
                               'strains': [_units(x, 1e9) for x in det.strain_values], 'nfirst': len(det.strain_values_first_run)})
                traces.append({'law': lname, 'events': ev})
                meta.append(seq)
            except Exception as ex:
                chk.violation('detector with %s raised %r' % (lname, ex), {'sequence': seq, 'law': lname}, part='real_law')
        out = tlc.validate_traces(TRACE_TLA, os.path.join(SPEC, 'hcm', 'Trace_HCM_table.cfg'), traces, 'c05_table_' + lname[7:9], nsplit=4, extra_json={'law_table': tab})
        chk.cov['states'] += out['states']
        chk.cov['transitions'] += out['generated']
        chk.part('real_law_' + lname, traces=len(traces), tlc_states=out['states'])
        for e in out['errors']:
            chk.machinery.append('real-law trace validation: ' + e[:400])
        for seq, tr, v in zip(meta, traces, out['verdicts']):
            chk.evals(1)
            if v is None:
                continue
            if v[1] == 'ok':
                chk.cov['traces_validated_against_impl'] += 1
                chk.nontrivial((lname, tuple(seq)))
            else:
                chk.violation('recorder content with %s is not what the HCM specification yields with the same law (clause %s at call %d)' % (lname, v[1], v[0]),
                              {'sequence': seq, 'law': lname}, None, tr['events'][v[0] - 1]['rows'][-2:], part='real_law')


def record_process_history(seq, cuts, flushes, law):
    det = hcm.new_detector(hcm.ExactLaw(law))
    arr = np.asarray(seq, dtype=np.float64)
    ev, pos = [], 0
    for c, fl in zip(cuts, flushes):
        det.process(arr[pos:pos + c], flush=fl)
        p = hcm.project(det)
        ev.append({'call': 'process', 'samples': [int(x) for x in seq[pos:pos + c]], 'flush': bool(fl),
                   'rows': [{'lmin': r['loads_min'], 'lmax': r['loads_max'], 'smin': r['S_min'], 'smax': r['S_max'],
                             'emin': r['epsilon_min'], 'emax': r['epsilon_max'], 'eminLF': r['epsilon_min_LF'], 'emaxLF': r['epsilon_max_LF'],
                             'closed': r['closed'], 'zero': r['zero'], 'run': r['run']} for r in p['rows']],
                   'strains': p['strains'], 'nfirst': len(p['strains_first'])})
        pos += c
    return {'law': law, 'events': ev}


def run(chk):
    quick = chk.tier == 'quick'
    tier = 'quick' if quick else 'thorough'
    for law, scale in LAWS.items():
        cfgname = 'MC_HCM_c05_%s_%s.cfg' % (law, tier)
        res = tlc.run(TLA, os.path.join(SPEC, 'hcm', cfgname), dump=True, timeout=3000, heap='12g')
        chk.tlc(cfgname, res, 'HCM bookkeeping with abstract law %s: extremes = min/max, scale invariant decisions, negation mirrors' % law)
        if res.violated:
            chk.machinery.append('model invariant %s violated: %s' % (res.violated, res.trace[-1:] ))
        if res.dump_path and os.path.exists(res.dump_path):
            parts = par.split_dump(res.dump_path, 64)
            total = 0
            for n, nontriv, drift, viol, samples in par.pmap(_replay_blocks, [(p, law, scale, chk.seed * 1000 + i) for i, p in enumerate(parts)], chunksize=1):
                total += n
                for k in nontriv:
                    chk.nontrivial(k)
                for s in samples[:1]:
                    chk.sample(s, cap=3)
                for what, case, exp, got in viol:
                    chk.violation(what, case, exp, got, part='replay')
            chk.cov['traces_validated_against_impl'] += total
            chk.evals(total)
            chk.part('replay_' + law, runs=total)
            os.remove(res.dump_path)
    # reversal-only sequences over -3..3 (7 / 8 samples) with the Masing-consistent cubic law: deeper HCM memory than the full alphabet reaches
    # (the non-Masing law asym is not used here: under it the running strain extremes of different points of a batch are attained at different
    # samples, and the code - like the guideline - decides them for all points from the first one; no admissible material behaves like that);
    # quick replays a fixed eighth of the sequences with at least 6 samples
    law, scale = 'cubic', LAWS['cubic']
    cfgname = 'MC_HCM_c05_cubic_rev_%s.cfg' % tier
    res = tlc.run(TLA, os.path.join(SPEC, 'hcm', cfgname), dump=True, timeout=3000, heap='12g')
    chk.tlc(cfgname, res, 'HCM bookkeeping, strictly alternating load sequences over -3..3 (x2), law cubic')
    if res.violated:
        chk.machinery.append('model invariant %s violated: %s' % (res.violated, res.trace[-1:]))
    if res.dump_path and os.path.exists(res.dump_path):
        sel, k = [], 0
        for blocks in par.split_dump(res.dump_path, 64):
            keep = []
            for b in blocks:
                i = b.find('s = <<')
                ln = b[i:b.find('>>', i)].count(',') + 1 if i >= 0 else 0
                if ln >= 6:
                    k += 1
                    if k % (8 if quick else 3) == chk.seed % (8 if quick else 3):
                        keep.append(b)
            sel.append(keep)
        total = 0
        for n, nontriv, drift, viol, samples in par.pmap(_replay_blocks, [(p, law, scale, chk.seed * 1000 + 500 + i) for i, p in enumerate(sel)], chunksize=1):
            total += n
            for kk in nontriv:
                chk.nontrivial(kk)
            for what, case, exp, got in viol:
                chk.violation(what, case, exp, got, part='replay_reversals')
        chk.cov['traces_validated_against_impl'] += total
        chk.evals(total)
        chk.part('replay_reversals_' + law, runs=total, of_sequences_with_6_or_more_samples=k)
        os.remove(res.dump_path)
    # near ties at a large magnitude (linear law): loads whose ranges / extremes differ by one or two counts at 2^24, every sequence replayed
    cfgname = 'MC_HCM_c05_near_%s.cfg' % tier
    res = tlc.run(TLA, os.path.join(SPEC, 'hcm', cfgname), dump=True, timeout=3000, heap='12g')
    chk.tlc(cfgname, res, 'HCM bookkeeping, strictly alternating load sequences over {-(2^24+1), -2^24, 0, 3, 2^24, 2^24+2}, law lin')
    if res.violated:
        chk.machinery.append('model invariant %s violated: %s' % (res.violated, res.trace[-1:]))
    if res.dump_path and os.path.exists(res.dump_path):
        total = 0
        for n, nontriv, drift, viol, samples in par.pmap(_replay_blocks, [(p, 'lin', 1, chk.seed * 1000 + 700 + i) for i, p in enumerate(par.split_dump(res.dump_path, 32))], chunksize=1):
            total += n
            for kk in nontriv:
                chk.nontrivial(kk)
            for what, case, exp, got in viol:
                chk.violation(what, case, exp, got, part='replay_near_ties')
        chk.cov['traces_validated_against_impl'] += total
        chk.evals(total)
        chk.part('replay_near_ties', runs=total)
        os.remove(res.dump_path)
    # extension beyond C05: chunk independence of FKMNonlinearDetector.process() (MC_HCMChunks), replayed; mismatches are drift
    cres = tlc.run(os.path.join(SPEC, 'hcm', 'MC_HCMChunks.tla'), os.path.join(SPEC, 'hcm', 'MC_HCMChunks.cfg'), dump=True, timeout=3000, heap='12g')
    chk.tlc('MC_HCMChunks.cfg', cres, 'extension: process() of the HCM detector is independent of the chunking (rows, running extremes, strain list, counters)')
    if cres.violated:
        chk.drift.append('MC_HCMChunks invariant %s violated (extension model)' % cres.violated)
    if cres.dump_path and os.path.exists(cres.dump_path):
        ctot = 0
        parts = par.split_dump(cres.dump_path, 64)
        if quick:
            parts = parts[::4]          # quick: a quarter of the chunked histories (TLC has checked all)
        for n, drift in par.pmap(_replay_chunks_blocks, parts, chunksize=1):
            ctot += n
            chk.drift += drift
        chk.part('chunk_extension', histories_replayed=ctot)
        chk.cov['traces_validated_against_impl'] += ctot
        os.remove(cres.dump_path)
    # two detectors alive at once (two components assessed side by side): process_hcm_first / process_hcm_second of the one between those of the
    # other, in every merge order (Interleave.tla); each recorder ends as when its detector runs alone
    ires = tlc.run(os.path.join(SPEC, 'common', 'Interleave.tla'), os.path.join(SPEC, 'common', 'MC_Interleave_22.cfg'), dump=True, timeout=300)
    chk.tlc('MC_Interleave_22.cfg', ires, 'merge orders of two call histories of two calls each; an object depends on its own calls only')
    if ires.dump_path and os.path.exists(ires.dump_path):
        from ..tlaparse import parse_dump
        orders = [st['order'] for st in parse_dump(ires.dump_path) if st['ia'] == 2 and st['ib'] == 2]
        os.remove(ires.dump_path)
        irng = random.Random(chk.seed * 37 + 5)
        nint = 0
        for _ in range(8 if quick else 60):
            law = irng.choice(['lin', 'cubic'])
            seqs = [[irng.randint(-4, 4) for _ in range(irng.randint(4, 10))] for _ in 'AB']
            if any(len(set(sq)) < 2 for sq in seqs):
                continue
            try:
                alone = [hcm.project(hcm.two_pass(sq, law)) for sq in seqs]
            except Exception:
                continue
            for order in orders:
                nint += 1
                dets = [hcm.new_detector(hcm.ExactLaw(law)), hcm.new_detector(hcm.ExactLaw(law))]
                k = [0, 0]
                try:
                    for who in order:
                        w = 0 if who == 'A' else 1
                        buf = np.asarray(seqs[w], dtype=np.float64).copy()
                        (dets[w].process_hcm_first if k[w] == 0 else dets[w].process_hcm_second)(buf)
                        buf[:] = 7.7e77
                        k[w] += 1
                    got = [hcm.project(d) for d in dets]
                except Exception as ex:
                    chk.violation('HCM detector raised when two detectors were run alternately: %r' % ex, {'law': law, 'sequences': seqs, 'order': list(order)}, part='interleaved')
                    continue
                for w in (0, 1):
                    if not rows_equal(got[w]['rows'], alone[w]['rows']) or got[w]['strains'] != alone[w]['strains']:
                        chk.violation('the recorder of an HCM detector differs from its run alone when a second detector is run in between its two passes',
                                      {'law': law, 'sequences': seqs, 'order': list(order), 'which': 'AB'[w]}, alone[w]['rows'][:6], got[w]['rows'][:6], part='interleaved')
                        break
                else:
                    chk.nontrivial(('interleaved', law, tuple(seqs[0]), tuple(seqs[1]), order))
        chk.evals(nint)
        chk.cov['traces_validated_against_impl'] += nint
        chk.part('interleaved', runs=nint, merge_orders=len(orders))
    # (C) recorded executions: two-pass runs of longer sequences and raw process()/flush histories, per law, validated by TLC
    rng = random.Random(chk.seed * 977 + 29)
    for law, scale in LAWS.items():
        traces, meta = [], []
        for i in range(30 if quick else 300):
            n = rng.randint(3, 20 if quick else 40)
            seq = [scale * x for x in c04.random_sequence(rng, n, rng.choice([2, 3, 5, 9]))]
            try:
                if i % 3 == 2:
                    cuts = []
                    left = n
                    while left > 0:
                        c = min(left, rng.randint(1, 6))
                        cuts.append(c)
                        left -= c
                    tr = record_process_history(seq, cuts, [rng.random() < 0.3 for _ in cuts], law)
                else:
                    tr, _ = c04.record_two_pass(seq, law)
            except Exception as ex:
                chk.violation('detector raised: %r' % ex, {'sequence': seq, 'law': law}, part='trace')
                continue
            traces.append(tr)
            meta.append(seq)
        out = tlc.validate_traces(TRACE_TLA, os.path.join(SPEC, 'hcm', 'Trace_HCM_%s.cfg' % law), traces, 'c05_' + law, nsplit=6)
        chk.cov['states'] += out['states']
        chk.cov['transitions'] += out['generated']
        chk.part('trace_validation_' + law, traces=len(traces), tlc_states=out['states'], wall_s=round(out['wall'], 1))
        for e in out['errors']:
            chk.machinery.append('trace validation: ' + e)
        acc = 0
        for seq, tr, v in zip(meta, traces, out['verdicts']):
            chk.evals(1)
            if v is None:
                if not out['errors']:
                    chk.machinery.append('no verdict for trace %s' % seq)
                continue
            if v[1] == 'ok':
                acc += 1
                chk.nontrivial((law, tuple(seq), tr['events'][0]['call'], len(tr['events'])))
            else:
                chk.violation('recorded execution rejected by the HCM specification: clause %s at call %d' % (v[1], v[0]),
                              {'sequence': seq, 'law': law, 'calls': [(e['call'], e['samples'], e['flush']) for e in tr['events']]},
                              None, tr['events'][v[0] - 1]['rows'][-3:], part='trace')
        chk.cov['traces_validated_against_impl'] += acc
        if traces and law == 'asym':
            chk.sample({'recorded_trace': {'law': law, 'first_call': {k: traces[0]['events'][0][k] for k in ('call', 'samples', 'strains')}}}, cap=5)
    real_law_traces(chk, quick)
    chk.cov['rule'] = ('TLC enumerates every load sequence over {-2..2} (x scale) up to MaxLen through the two-pass HCM specification for three abstract laws '
                       '(linear, cubic Masing, deliberately asymmetric); every sequence is replayed into FKMNonlinearDetector with the same law injected and ALL recorder '
                       'columns (loads, S, eps, LF extremes, S_a, S_m, eps_a, eps_m, R, flags, run) and the strain lists are compared exactly; seeded sub-samples are also run '
                       'negated and as batches of 2-3 proportional points (batch point = point alone). Non-trivial = >= 2 recorded hystereses. '
                       'Recorded longer two-pass runs and raw process()/flush histories are validated by Trace_HCM.tla; runs with REAL laws (Binned ExtendedNeuber / SeegerBeste) are validated against the specification driven by the tabulated law.')
    chk.cov['rule'] += ' Also: strictly alternating sequences over -3..3 (x2) with the cubic law (a fixed sample replayed); chunks are handed over in a re-used buffer that is overwritten after each call; strictly alternating sequences over {-(2^24+1), -2^24, 0, 3, 2^24, 2^24+2} (near ties where x - 1e-12 = x) with the linear law, all replayed; two detectors run alternately in all 6 merge orders of their two passes (Interleave.tla) record what they record alone.'
    chk.cov['exhaustive'] = True
    chk.assumptions += ['the independent implementation is the TLA+ HCMNL specification, written from the procedure pyLife documents (cases a-c, Memory 1-3); the guideline text itself is not available offline',
                        'exact integer laws injected through the public constructor argument; real laws (ExtendedNeuber, SeegerBeste, Binned) are exercised by C10',
                        'integer loads: 1e-12 tolerances of the code do not act']


def replay(chk, path):
    import json
    v = json.load(open(path))
    c = v['case']
    print(json.dumps(c))
    print(run_single(c['sequence'], c['law']))
    return 0

#!/usr/bin/env python3
"""Print the prompt handed to an independent mutation-writing sub-agent for one property.
The prompt contains only the property text and the scratch worktree location (nothing from /verif's machinery)."""
import json, sys
pid = sys.argv[1]
wt = f"/tmp/wt/{pid}"
out = f"/tmp/wt/out/{pid}"
p = next(json.loads(l) for l in open('/verif/properties.jsonl') if json.loads(l)['id'] == pid)
print(f"""You are helping to evaluate a verification framework for the Python library pyLife (boschresearch/pylife: mechanical fatigue / lifetime assessment). Your job: write realistic source changes ("seeded defects") to pyLife that BREAK one stated semantic property while the library still imports and its existing test-suite still passes.

Work ONLY inside your own scratch git worktree of the repository: {wt}  (never touch /repo, never read or touch /verif). Put your deliverables in {out}/ .

The property (this is all you are told about it):

  id: {p['id']}
  title: {p['title']}
  statement: {p['statement']}
  quantified over: {p['quantifier']['text']}
  source files the property is anchored in: {', '.join(p['anchors']['files'])}

How to run things in your worktree (no network; do not pip install anything):
  cd {wt} && PYTHONPATH={wt}/src /venv/bin/python -m pytest -q -p no:cacheprovider --timeout=900 --continue-on-collection-errors
  (the full suite takes ~5-8 minutes; run the relevant sub-directories first, but you MUST confirm with the full suite at the end. On the UNCHANGED tree exactly 9 tests fail: test_compute_beta_fails[1], two test_fkm_nonlinear_recorder_* in tests/stress/rainflow/test_recorders.py, test_timesignal::test_ps_df, 2 meshsignal doctests, 3 vmap_import doctests. A change is acceptable only if the set of failing tests stays exactly those 9 — record the pass/fail counts.)
  Always use PYTHONPATH={wt}/src so that your worktree's sources are imported (check with: PYTHONPATH={wt}/src /venv/bin/python -c "import pylife; print(pylife.__path__)").
  NOTE: src/pylife/stress/rainflow/extension.pyx is compiled into src/pylife/rainflow_ext*.so, which is NOT rebuilt automatically. If (and only if) you change extension.pyx, rebuild with:  cd {wt} && /venv/bin/python -m cython -3 --module-name pylife.rainflow_ext src/pylife/stress/rainflow/extension.pyx -o /tmp/wt/out/{pid}/extension.c && gcc -shared -fPIC -O2 $(/venv/bin/python -c "import sysconfig,numpy;print('-I'+sysconfig.get_paths()['include'],'-I'+numpy.get_include())") /tmp/wt/out/{pid}/extension.c -o src/pylife/rainflow_ext.cpython-312-x86_64-linux-gnu.so   (and say so in meta.json). Prefer changes in the .py files.

What to produce: up to THREE different, independent changes (each a separate patch against the clean worktree; `git -C {wt} stash`/`checkout -- .` between them), ideally touching different mechanisms behind the property. Each change must:
  1. be small and realistic — the kind of slip a maintainer could make in a refactoring or "optimisation" (off-by-one, wrong comparison operator, wrong tie-breaking, state not reset/carried, wrong index arithmetic, a special-case shortcut, two sites that each look fine alone...). No deliberately obfuscated code, no `if input == magic`.
  2. keep the package importable and keep the existing full test-suite at exactly the 9 baseline failures (same tests).
  3. violate the property ONLY under something specific — a particular multi-step sequence of calls, a particular kind of input (ties, plateaus, borders, unusual ids/orders/signs, empty classes, extreme parameter values, a second call after a failed one, ...), not for nearly every ordinary use. Changes that every normal call would expose at once are not wanted.
  4. come with a demonstration: a small stand-alone Python program {out}/mutN_demo.py (N=1,2,3) that takes no arguments, imports pylife from PYTHONPATH, exits 0 when the property holds on its chosen input(s) and exits 1 (printing what differed) when it does not. It must exit 0 on the clean worktree and exit 1 with your change applied. The demo should check the property as stated (e.g. compare against an independent computation or a second run), not compare against hard-coded outputs of the current code where avoidable.

Deliverables per change N in {out}/ :
  mutN.diff       — `git -C {wt} diff` output (source changes only; apply-able with `git apply` to a clean checkout at the same commit)
  mutN_demo.py    — the demonstration
  mutN_meta.json  — {{"property": "{pid}", "summary": "...what was changed...", "needs": "...what specific input/sequence is needed for it to manifest...", "files": [...], "suite": "N passed / 9 failed (baseline set)", "demo_clean_exit": 0, "demo_mutated_exit": 1, "rebuilt_extension": false}}

When done, leave the worktree clean (`git -C {wt} checkout -- .`; if you rebuilt the .so, restore it with `cp /repo/src/pylife/rainflow_ext*.so {wt}/src/pylife/`) and reply with a short summary listing, per change: what it does, what it needs to manifest, the suite result and the demo results. Do not spend time on anything else. If you cannot find three, deliver fewer — quality over number.""")

#!/usr/bin/env python3
"""Promote confirmed agent-written changes from seeded/_unverified/Cxx/mutN.* to seeded/Cxx-N/ (patch.diff, demo.py, meta.json)
and record which registered quick checks catch them (tools/mutest.sh).  Usage: promote_seeds.py [Cxx ...]"""
import glob, json, os, re, shutil, subprocess, sys
ROOT = os.path.dirname(os.path.dirname(os.path.abspath(__file__)))
UNV = os.path.join(ROOT, 'seeded', '_unverified')
BASE9 = ['test_compute_beta_fails[1]', 'test_fkm_nonlinear_recorder_empty_collective_default', 'test_fkm_nonlinear_recorder_two_non_zero_collective',
         'test_ps_df', 'pylife.mesh.meshsignal;', 'Mesh.vtk_data', 'join_coordinates', 'join_variable', 'make_mesh']
EXTRA = {'C02': ['C01'], 'C03': ['C01'], 'C13': ['C08'], 'C11': ['C08'], 'C05': ['C07', 'C04'], 'C04': ['C05']}      # other checks worth trying when the own check misses


def confirmed(c):
    if not (c.get('applies') and c.get('demo_clean_exit') == 0 and c.get('demo_mutated_exit') == 1):
        return False
    if re.match(r'9 failed, 1480 passed', c.get('suite_summary', '')) and all(b in c.get('suite_failed', '') for b in BASE9):
        return True
    # a change may make a baseline-failing test pass: accepted when every remaining failure is one of the 9 baseline failures and nothing else was lost
    m = re.match(r'(\d+) failed, (\d+) passed', c.get('suite_summary', ''))
    failed = [f for f in c.get('suite_failed', '').split(';') if f.strip()]
    return bool(m) and int(m.group(1)) < 9 and int(m.group(1)) + int(m.group(2)) == 1489 and len(failed) == int(m.group(1)) \
        and all(any(b.rstrip(';') in f for b in BASE9) for f in failed)


def mutest(diff, pid):
    p = subprocess.run([os.path.join(ROOT, 'tools', 'mutest.sh'), diff, pid], capture_output=True, text=True)
    lines = [l for l in p.stdout.splitlines() if l.startswith('  what:')]
    return p.returncode, (lines[0][8:300] if lines else '')


def one(job):
    d, tag, pid, diff, n, cf, dest = job
    c = json.loads(open(cf).read().replace('\\', '/').replace('\t', ' '))
    meta = json.load(open(os.path.join(d, 'mut%s_meta.json' % n)))
    if subprocess.run(['git', '-C', '/repo', 'apply', '--check', diff], capture_output=True).returncode != 0:
        os.makedirs(dest, exist_ok=True)
        json.dump({'property': pid, 'kept': False, 'reason': 'patch no longer applies to /repo HEAD (the code it changed was repaired by a later fix: commit)', 'confirmation': c, 'agent_meta': meta},
                  open(os.path.join(dest, 'rejected.json'), 'w'), indent=1)
        return '%s %s moot: does not apply to HEAD' % (tag, n)
    if not confirmed(c):
        os.makedirs(dest, exist_ok=True)
        json.dump({'property': pid, 'kept': False, 'reason': 'not confirmed on the current /repo HEAD', 'confirmation': c, 'agent_meta': meta}, open(os.path.join(dest, 'rejected.json'), 'w'), indent=1)
        return '%s %s NOT confirmed: %s' % (tag, n, {k: c.get(k) for k in ('applies', 'demo_clean_exit', 'demo_mutated_exit', 'suite_summary')})
    caught = {}
    for chk in [pid] + EXTRA.get(pid, []):
        rc, what = mutest(diff, chk)
        caught[chk] = {'exit': rc, 'first_violation': what}
        if rc == 1 and chk == pid:
            break
    os.makedirs(dest, exist_ok=True)
    shutil.copy(diff, os.path.join(dest, 'patch.diff'))
    shutil.copy(os.path.join(d, 'mut%s_demo.py' % n), os.path.join(dest, 'demo.py'))
    json.dump({'property': pid, 'round': {'b': 2, 'c': 3, 'd': 4, 'e': 5}.get(tag[3:], 1), 'summary': meta.get('summary'), 'needs': meta.get('needs'), 'files': meta.get('files'), 'rebased': meta.get('rebased'),
               'written_by': 'independent sub-agent given only the property text and a scratch worktree' + (' (plus one-line summaries of the changes already tried)' if tag[3:] else ''),
               'what_was_run': c.get('ran'), 'demo_clean_exit': c['demo_clean_exit'], 'demo_changed_exit': c['demo_mutated_exit'],
               'suite_with_change': c['suite_summary'], 'suite_failures_are_the_baseline_set': bool(re.match(r'9 failed, 1480 passed', c['suite_summary'])), 'suite_failures_subset_of_baseline': True,
               'checks_run_against_it': caught,
               'caught_by': sorted(k for k, v in caught.items() if v['exit'] == 1)}, open(os.path.join(dest, 'meta.json'), 'w'), indent=1)
    return '%s %s kept; caught by %s' % (tag, n, sorted(k for k, v in caught.items() if v['exit'] == 1) or 'NONE')


def main():
    from concurrent.futures import ThreadPoolExecutor
    args = [a for a in sys.argv[1:] if not a.startswith('-')]
    force = '--force' in sys.argv
    only = set(args)
    jobs = []
    for d in sorted(glob.glob(os.path.join(UNV, 'C*'))):
        tag = os.path.basename(d)
        pid = tag[:3]
        if only and tag not in only and pid not in only:
            continue
        for diff in sorted(glob.glob(os.path.join(d, 'mut*.diff'))):
            n = re.search(r'mut(\d+)\.diff', diff).group(1)
            cf = os.path.join(d, 'mut%s_confirm.json' % n)
            dest = os.path.join(ROOT, 'seeded', '%s-%s' % (tag, n))
            if not os.path.exists(cf) or (os.path.exists(os.path.join(dest, 'meta.json')) and not force):
                continue
            jobs.append((d, tag, pid, diff, n, cf, dest))
    with ThreadPoolExecutor(max_workers=3) as ex:
        for line in ex.map(one, jobs):
            print(line, flush=True)


main()

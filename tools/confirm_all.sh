#!/bin/sh
# confirm every seeded candidate that has no mutN_confirm.json yet (sequentially; run in background)
for d in /verif/seeded/_unverified/*/; do
  for f in $d/mut*.diff; do
    n=$(basename $f .diff | sed 's/mut//')
    [ -f $d/mut${n}_confirm.json ] || /verif/tools/confirm_seed.sh $(realpath $d) $n >/dev/null 2>&1
  done
done
echo all-done

#!/bin/sh
# usage: run_all.sh <tier>  — runs every claimed check once, prints one summary line per property
T=${1:-quick}
for p in $(python3 -c "import json;print(' '.join(c['property_id'] for c in json.load(open('MANIFEST.json'))['checks']))"); do
  s=$(date +%s)
  out=$(bin/vcheck $p --tier $T 2>&1); rc=$?
  e=$(date +%s)
  echo "$p rc=$rc wall=$((e-s))s :: $(echo "$out" | grep -E "^$p tier" | tail -1)"
  echo "$out" | grep -E "VIOLATION|MACHINERY|KNOWN-FINDING|MODEL-DRIFT" | cut -c1-260 | head -6
done

#!/bin/sh
# usage: mkwt.sh <name>  -> creates scratch worktree /tmp/wt/<name> of /repo HEAD with the compiled kernel copied in
set -e
n="$1"
git -C /repo worktree add --detach /tmp/wt/$n HEAD >/dev/null 2>&1
cp /repo/src/pylife/rainflow_ext*.so /tmp/wt/$n/src/pylife/
mkdir -p /tmp/wt/out/$n
echo /tmp/wt/$n

#!/usr/bin/env python3
"""Second-round prompt: same task as agent_prompt.py plus the list of ideas already tried for this property (so that new mechanisms are attacked)."""
import json, sys, glob, os, subprocess
pid = sys.argv[1]
tag = sys.argv[2] if len(sys.argv) > 2 else pid + 'b'
base = subprocess.run([sys.executable, '/verif/tools/agent_prompt.py', pid], capture_output=True, text=True).stdout
base = base.replace('/tmp/wt/%s' % pid, '/tmp/wt/%s' % tag).replace('/tmp/wt/out/%s' % pid, '/tmp/wt/out/%s' % tag)
tried = []
for m in sorted(glob.glob('/verif/seeded/_unverified/%s/mut*_meta.json' % pid) + glob.glob('/verif/seeded/_unverified/%s?/mut*_meta.json' % pid)):
    j = json.load(open(m))
    tried.append('  - ' + (j.get('summary') or '')[:300].replace('\n', ' '))
extra = ("\n\nIMPORTANT — ideas that have ALREADY been tried for this property (do NOT repeat them or close variants; attack OTHER mechanisms, other files among the anchored ones, "
         "other kinds of inputs / call sequences):\n" + '\n'.join(tried) +
         "\n\nNote: the repository HEAD contains recent 'fix:' commits (see `git -C /tmp/wt/%s log --oneline | head -12`); work on top of them." % tag)
print(base + extra)

#!/bin/sh
# usage: mutest.sh <patch.diff> <Cxx> [tier]  — run a property check against a scratch copy of /repo/src with the patch applied
P="$1"; ID="$2"; TIER="${3:-quick}"
D=/tmp/mut.$$
mkdir -p $D
(cd /repo && git ls-files src | tar -cf - -T - | tar -xf - -C $D) || exit 3
(cd $D && git init -q . && git apply --whitespace=nowarn "$P") || { echo "patch does not apply"; rm -rf $D; exit 3; }
VERIF_WORK=$D/work VERIF_EVIDENCE_DIR=$D/evidence VERIF_REPO_SRC=$D/src /verif/bin/vcheck $ID --tier $TIER; rc=$?
rm -rf $D
exit $rc

#!/usr/bin/env python3
"""Writes seeded/README.md: one line per kept seeded change and which checks catch it."""
import glob, json, os
ROOT = os.path.dirname(os.path.dirname(os.path.abspath(__file__)))
rows = []
for m in sorted(glob.glob(os.path.join(ROOT, 'seeded', 'C*-*', 'meta.json'))):
    j = json.load(open(m))
    rows.append('| %s | %s | %s | %s |' % (os.path.basename(os.path.dirname(m)), (j.get('summary') or '').replace('|', '/').replace('\n', ' ')[:220],
                                           (j.get('needs') or '').replace('|', '/').replace('\n', ' ')[:200], ', '.join(j.get('caught_by') or []) or '**not caught**'))
rej = sorted(os.path.basename(os.path.dirname(r)) for r in glob.glob(os.path.join(ROOT, 'seeded', 'C*-*', 'rejected.json')))
open(os.path.join(ROOT, 'seeded', 'README.md'), 'w').write(
    '# Seeded changes\n\nEach directory holds `patch.diff` (apply with `git -C /repo apply`), `demo.py` (exit 0 clean / 1 changed) and `meta.json`.\n\n'
    '| seed | change | needs | caught by quick check |\n|---|---|---|---|\n' + '\n'.join(rows) + '\n\nNot kept (could not be confirmed on the current tree): ' + (', '.join(rej) or 'none') + '\n')
print(len(rows), 'kept,', len(rej), 'rejected')

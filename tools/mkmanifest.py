#!/usr/bin/env python3
"""Generates /verif/MANIFEST.json from the table below (single source of truth for the interface)."""
import json, os
ROOT = os.path.dirname(os.path.dirname(os.path.abspath(__file__)))
ALL = ['C%02d' % i for i in range(1, 21)]

MC = 'model_checking'
CHECKS = {
 'C01': dict(cat=MC, technique='TLA+ spec of the chunk protocol + kernels (spec/rainflow), TLC exhaustive over all signals x all partitions, every TLC state replayed into the real detectors, recorded traces validated by TLC',
   text='Every (signal, partition) over a small integer alphabet is a TLC state; ChunkIndependent/ChunkMap are invariants of the model, and every state is replayed into ThreePoint/FourPoint/FKM detectors and compared projection by projection; longer recorded executions are accepted/rejected by the trace specification. Chunking is a finite combinatorial space, which is what model checking decides.',
   note='Trusts TLC/SANY, the dump parser and projection; integer-valued samples; bounded alphabet/length for the exhaustive part', ref='5 C01'),
 'C02': dict(cat=MC, technique='TLA+ definition-level four-point rule (leftmost-quadruple rewriting) vs implementation-shaped stack kernels, TLC exhaustive, dump replayed into the real detectors, recorded traces validated by TLC',
   text='TLC proves stack kernel = textbook definition on every signal of the bounded instance and the harness compares the real detectors with the definition-level result of every state; partition of turning points and index addressing are checked on the observed output.',
   note='FKM oracle = HCM rule in the guideline form documented by pyLife; integer-valued samples', ref='5 C02'),
 'C03': dict(cat=MC, technique='TLA+ symmetry theorems (negation, affine, refinement index map, NaN index correction) checked by TLC on every signal; pairs of runs of the real detectors related as the spec states; recorded pairs decided by a TLC trace specification',
   text='The transformations form a finite family per signal; TLC proves the relations on the specification for every signal of the bounded instance and the harness executes the real detectors on every (signal, transformation) pair of that instance, comparing observed outputs by the relation; longer recorded pairs are accepted/rejected by Trace_Symmetry.tla.',
   note='integer samples / integer affine maps for the TLC-decided part; FKM claimed only for negation and refinement', ref='5 C03'),
 'C04': dict(cat=MC, technique='TLA+ spec of the two-pass HCM protocol (spec/hcm/HCMNL.tla) with definition-level oracle Periodic(s) = rainflow of the periodic reversal sequence; TLC exhaustive over all load sequences; every state replayed into FKMNonlinearDetector; recorded runs validated by Trace_HCM.tla',
   text='TLC checks SecondPass = Periodic and the Memory-3 rule on every load sequence of the bounded instances (two alphabets), the harness judges the real recorder content of every such sequence by the same definition-level predicate, and longer recorded sequences with non-reversal refinements are accepted/rejected by the trace specification (which also evaluates C04 on the logged rows).',
   note='integer loads (tolerances of the code inactive), injected exact linear law, single point; the junction defect found this way was repaired in /repo (fix: cf9ffe7)', ref='5 C04'),
 'C05': dict(cat=MC, technique='TLA+ HCM specification with abstract notch law (3 exact integer laws) as the independent implementation; TLC exhaustive; all recorder columns and strain lists of every state compared exactly with FKMNonlinearDetector; batch-vs-alone and negation relations; recorded runs validated by Trace_HCM.tla',
   text='The specification is an independent implementation of the HCM procedure (cases a-c, Memory 1-3, running extremes) parametrised by the law; for three exact laws every load sequence of the bounded instance is replayed with the same law injected and every column compared exactly; batches of proportional points (incl. arbitrary node ids / load-step labels) are compared with each point alone.',
   note='laws are exact integer functions injected through the constructor; real laws are exercised via C10; raw chunked process() on multi-point input is outside the property (observation O1 in DESIGN)', ref='5 C05'),
 'C06': dict(cat=MC, technique='TLA+ transcription of the extended-Neuber implicit functions and the Ramberg-Osgood/Masing relations in exact rationals (spec/notch/Neuber.tla): for n\' = 1/m TLC constructs, per lattice point, the material for which a chosen stress is the EXACT root and proves root/oddness/Masing doubling/bracket/monotonicity; every state replayed into ExtendedNeuber; recorded load walks of both laws (FKM materials) validated by the TLC trace specification Trace_Notch.tla',
   text='For hardening exponents 1/m the defining equation is polynomial, so the specification can construct material/load pairs whose exact root is a known rational: TLC checks the coded implicit function vanishes there (primary, mirrored, Masing-doubled) and that the root is bracketed and strictly increasing, and each state is an implementation test with an exact expectation for stress, secondary branch, strain and the backward functions at both tolerances. For realistic (non-rational) exponents and the Seeger-Beste law the same clauses are decided by a trace specification on recorded ascending load walks (all observables logged as integers; the root clause uses the harness\' own transcription of eq. 2.5-45/46 and 2.8-42/43).',
   note='exact part only for n\' = 1/m, m = 2..4; the walk part trusts the harness transcription of the equations and reads "within the requested tolerance" as 2 (tol + rtol |stress|); calls on which the solver raises are counted, not failed; defect found this way (Seeger-Beste cancellation near stress = load) repaired in /repo (fix: dd03431)', ref='5 C06'),
 'C15': dict(cat=MC, technique='TLA+ lattice of load/strength medians and Pythagorean scatter pairs on which the probit of the analytic failure probability is an exact rational (spec/failprob); TLC proves the order / mirror / limit laws; every state evaluated through FailureProbability (simple, log-normal, arbitrary-density variants)',
   text='On scatter pairs (s_L, s_S) that are legs of Pythagorean triples sqrt(s_L^2 + s_S^2) is an integer, so (log10 L - log10 S)/sqrt(...) is a rational number TLC can compute and order exactly: monotone in both medians, ratio-only, mirror = complement, flatter with more scatter, deterministic load as the member with s_L = 0. Each lattice state is an implementation test whose expected value is Phi of that exact probit, for pf_simple_load, pf_norm_load (also with explicit limits and vanishing load scatter) and pf_arbitrary_load on sampled log-normal densities at two resolutions.',
   note='the reference value is scipy.stats.norm.cdf of the exact probit; agreement to 1e-9 + 1e-5 of the smaller tail; [0, 1] up to rounding (1e-12)', ref='5 C15'),
 'C07': dict(cat=MC, technique='TLA+ transcription of the class selection of Binned (searchsorted-left, +1 row, range guard; scalar, one-table and per-point paths) vs the definition "least class whose upper edge is >= |load|"; TLC enumerates the whole lattice; every state looked up in real Binned objects',
   text='The case analysis is finite per (bins, branch); TLC proves coded class choice = definition (and the consequences: error iff above max, never under-estimates, monotone, < 1 class) on the lattice of loads on/between/beyond class edges, and each lattice state is one implementation test: exact laws compared exactly, real laws against the wrapped law evaluated on the table edges; per-point tables vs each point alone; look-ups must not depend on call history.',
   note='edges as doubles taken from the table; solver accuracy of the wrapped laws is C06; known finding C07-onebin (number_of_bins=1 raises)', ref='5 C07'),
 'C08': dict(cat=MC, technique='TLA+ transcription of WoehlerCurve (transform_to_failure_probability, _make_k, basquin_cycles/_load, Miner variants) on the log2 exponent lattice; TLC checks the algebraic laws on every lattice state; each state evaluated through the real accessor',
   text='On powers of two with failure probabilities 10/50/90 % the whole algebra is exact integer arithmetic on exponents, so TLC decides inverse/monotone/knee/slope/Miner/scatter-ratio/group-law/identity on the specification for the full lattice, and every lattice state is an implementation test with the exact expected value (scalar, integer-typed, array, Series and DataFrame x Series broadcast forms; non-mutation of source and signal).',
   note='lattice restriction (powers of two, three probabilities, slopes k and k/2); rel 1e-9 because the code shifts with 10**x', ref='5 C08'),
 'C11': dict(cat=MC, technique='TLA+ model of Miner damage and the Gassner identity on the log2 lattice with exact integer sums (spec/miner); TLC enumerates curves x collectives incl. every emptiness pattern; each state evaluated through fatigue.damage / gassner_miner_* / solidity for 4 collective layouts',
   text='Linearity, order independence, rule ordering and the Gassner identity (damage exactly 1 at the predicted cycles) are exact statements on power-of-two data; TLC proves them on the specification for every collective of the bounded instance (counts include 0 at the top, bottom and in between) and every state is an implementation test with exact expectation.',
   note='lattice restriction; fixed defect C11-empty-top-class; open finding C11-haibach-below-SD', ref='5 C11'),
 'C09': dict(cat=MC, technique='TLA+ transcription (spec/fkmnl) of the P_RAM / P_RAJ component curves on the log2 lattice, the P_RAM parameter case analysis, DamageCalculatorPRAM as coded vs literal accumulation in exact integers, and the safety-factor case analysis; TLC enumerates all sub-lattices; each state evaluated through the real classes',
   text='Curves, parameter zero rule, accumulation (x = (1-D1)/D2 and the early-failure search vs literally adding first-pass damage once and second-pass damage repeatedly, half hystereses half) and the safety-factor cases are finite case analyses with exact arithmetic on the chosen lattices; TLC proves as-coded = definition on the specification and each lattice state is one implementation test.',
   note='compute_beta is only spot-checked numerically (no lattice); P_RAJ accumulation not modelled (exercised via C10)', ref='5 C09'),
 'C12': dict(cat=MC, technique='TLA+ model of the Haigh-diagram segment walk as coded (distance-sorted segment loops, boundary rule, flipping point) vs the iso-damage line in exact rationals (spec/meanstress/Haigh.tla), plus the matrix re-binning predicate (Rebin.tla); TLC enumerates cycles x diagrams x target R; every state evaluated through the plain functions and both accessors',
   text='TLC proves walk = iso-damage line, fixed point, idempotence, path independence and monotonicity on the rational lattice (incl. R = -inf, R > 1, segment borders, five-segment diagrams) and each lattice state is an implementation test with the exact expected amplitude; interface agreement and two-step paths are checked on the code; the matrix interface is checked for total conservation and exact class placement on border-hitting ranges.',
   note='restricted (as the property) to cycles whose exact iso-damage amplitude stays positive; open finding C12-M4-ninf', ref='5 C12'),
 'C13': dict(cat=MC, technique='TLA+ definition of broadcasting as a join of key tuples on shared index levels plus the recode/restore identity of the index cache (spec/broadcast); TLC enumerates every level-name layout x key set in the domain; each configuration built as pandas operands and Broadcaster.broadcast compared row by row, operands compared with deep copies',
   text='The space of level layouts (equal, disjoint, contained, overlapping, unnamed, falsy-named, coinciding key/code values) and small key sets is finite; TLC computes the definition-level result for each configuration and checks its consistency theorems, and every configuration is replayed into the real Broadcaster (Series/DataFrame kinds by seed); scalar/array/parameter-vector paths and a downstream Woehler calculation are checked separately.',
   note='row order and level order of the result are not prescribed by C13 and not compared; four open findings (C13-order2, C13-2x2overlap, C13-order3-keys, C13-int-level-name)', ref='5 C13'),
 'C14': dict(cat=MC, technique='TLA+ model of the collective identities, numpy class rule, range/mean marginal and overlap-proportional re-binning in exact integers/rationals (spec/collective/Histo.tla); TLC enumerates rows x bin specifications x source/target binnings; every state evaluated through load_collective / rebin_histogram / combine_histogram',
   text='"Each cycle in exactly one class", "range histogram = marginal", "re-binning conserves the total / is the identity" and the from/to-range/mean-scale-shift identities are exact combinatorial statements on integer data; TLC proves them on the specification for every configuration of the bounded instance and each configuration is an implementation test (several collective layouts, bin forms, class orders, 2-D target level orders).',
   note='integer loads and edges; open finding C14-cycles-ignored; fixed defect C14-single-interval', ref='5 C14'),
 'C16': dict(cat=MC, technique='TLA+ transcription of Hooke (1D, plane stress, plane strain, 3D) and Ramberg-Osgood with n = 1/m in exact rationals (spec/materials); TLC proves inverses / embeddings / oddness / Masing on the lattice; each lattice state evaluated through the real classes',
   text='For rational E, nu, stresses and n = 1/m the laws are rational functions, so TLC decides invertibility, the plane/3D embeddings, oddness, monotonicity and the Masing relations exactly on the specification and every lattice state is an implementation test (closed forms at 1e-11, Newton inverses at the documented solver tolerance, scalar and array forms, independence of array neighbours).',
   note='true_strain (logarithm) has no lattice: numeric check only; Newton inverse only claimed for strains <= 100 %', ref='5 C16'),
 'C17': dict(cat=MC, technique='TLA+ construction T = R D R^T from integer principal values and integer-quaternion rotations (exact integers), definitions of all equivalent stresses from the principal values, rotation-invariance theorems checked by TLC; the float image of every lattice tensor evaluated by the real functions and the accessor',
   text='TLC proves on the exact lattice that the component formulas are rotation invariant and that the definitions obey the Mises/Tresca bounds; each (principal values, rotation) state is an implementation test whose expected value comes from the principal values (never an eigen-solver), at four scales (homogeneity), scalar / column / accessor forms, with the documented +1 sign rule required wherever the code arithmetic is exact.',
   note='sign of a mathematically zero indicator accepted either way for inexactly representable rotated tensors', ref='5 C17'),
 'C20': dict(cat=MC, technique='TLA+ state machine of the VMAP file under add_geometry / add_node_set / add_element_set / add_variable with success and failure branches (spec/vmap/Vmap.tla); TLC explores every call history to a depth, checks RoundTrip / NoPartial / history independence; every reachable history is executed on a fresh VMAPExport file and the file projected through VMAPImport is compared with the specification state',
   text='Call histories over a mesh catalogue (2-D, 3-D, gapped/descending ids, interleaved rows, mixed element types, unsupported and out-of-range ids) form a finite state space; TLC checks the round-trip, no-partial-write and every-valid-mesh-is-accepted properties in every state / step, and each state is replayed into the real exporter and importer (values are distinguishable doubles per mesh row and column).',
   note='catalogue meshes; quick tier replays all histories up to depth 2 and a seeded 35 % of depth 3; five defects found this way were repaired in /repo', ref='5 C20'),
 'C19': dict(cat=MC, technique='TLA+ model of hot-spot region growing as coded vs connected components (spec/mesh/Hotspot.tla), TLC exhaustive over incidence structures and fields; TLA+ configuration lattice of block meshes x numberings x row orders with the boundary-node set (MeshOps.tla); every state evaluated through hotspot / gradient / gradient_3D / surface_3D / meshmapper',
   text='Hot-spot detection is a graph algorithm: TLC proves region growing = connected components numbered by descending peak on every small incidence structure incl. ties and entries exactly on the threshold, and each is replayed with arbitrary ids and row orders. For the numeric operators the specification enumerates the configuration space (numberings with gaps / reversed / scattered, element numberings, row orders, hex / tet / mixed) for which the expectation (constant gradient at every node, boundary node set, linear values) is exact.',
   note='gradient / surface / mapping expectations are exact only for linear fields on the block catalogue; the model contributes configurations and the boundary set, not floating-point reasoning', ref='5 C19'),
 'C10': dict(cat=MC, technique='TLA+ metamorphic transition system over assessment configurations (spec/assessment/Assessment.tla): actions carry the relation (unchanged / not larger); TLC enumerates the walks; the real pipeline is executed at every step of core and sampled walks and each recorded step is decided by the TLC trace specification Trace_Assessment.tla (micro-log units, tolerance as a spec constant)',
   text='C10 relates pairs of runs of an expensive numeric pipeline; the specification makes the transformations (add/drop/reorder points, per-point gradient, six kinds of non-reversal refinements, scale, roughness, failure probability) actions with their relation, TLC generates compositions no single-step test reaches, and the accept/reject decision for every recorded step is taken by TLC. Weaker than the exhaustive checks: walks are sampled (all core walks + a seeded stratified sample).',
   note='sampled walks; absolute lifetimes are not judged; open findings C10-PRAJ-batch and C10-PRAM-class-edge', ref='5 C10'),
 'C18': dict(cat=MC, technique='TLA+ model of the finite/infinite zone logic (spec/woehleranalysis/Zones.tla) checked exhaustively by TLC and replayed into df.fatigue_data; TLA+ metamorphic transition system (AnalysisEquiv.tla) for the estimators whose recorded walks are decided by the TLC trace specification Trace_Analysis.tla',
   text='The zone logic is discrete: TLC proves partition / split at the transition / permutation invariance on every test series of the bounded instance and each series is an implementation test (three row-label layouts). The estimators are numeric optimisers: scaling by powers of two, permutation and interleaved analyses of other data are actions with their relation; the recorded estimates along walks are accepted or rejected by TLC (closed-form estimators 1.3e-6, Nelder-Mead based 1e-4), including exact recovery on a Basquin line and the likelihood ordering.',
   note='partial: estimators only through validated metamorphic walks on a three-data-set catalogue; open finding C18-exact-nan', ref='5 C18'),
}
PENDING = 'check not built yet in this round (planned, see DESIGN.md section 5)'
NA = {
}

def main():
    checks = []
    for pid, c in CHECKS.items():
        checks.append({
            'property_id': pid,
            'quick_cmd': 'bin/vcheck %s --tier quick' % pid,
            'thorough_cmd': 'bin/vcheck %s --tier thorough' % pid,
            'evidence_file': 'evidence/%s.json' % pid,
            'replay_cmd_template': 'bin/vcheck %s --replay {path}' % pid,
            'engine': 'tlc+replay',
            'level_claimed': {'category': c['cat'], 'text': c['text'], 'design_ref': 'DESIGN.md section ' + c['ref']},
            'level_note': c['note'],
            'technique': c['technique'],
        })
    na = [{'property_id': p, 'reason': NA.get(p, PENDING)} for p in ALL if p not in CHECKS]
    m = {
        'version': 1,
        'setup_cmd': 'bin/setup',
        'hooks': {'guard': 'PYLIFE_VERIF', 'enable': 'no source hooks are used: all observation goes through public attributes of pyLife objects (DESIGN.md 3.9); checks import pylife from /repo/src and rebuild the Cython kernels from the current extension.pyx',
                  'baseline_off_cmd': 'cd /repo && /venv/bin/python -m pytest -ra -q -p no:cacheprovider --timeout=900 --continue-on-collection-errors',
                  'source_commits': [], 'add_only': True},
        'engines': [{'name': 'tlc+replay', 'path': 'bin/vcheck', 'serves_properties': sorted(CHECKS),
                     'kind_free_text': 'explicit TLA+ specifications (spec/) model-checked by TLC; TLC state dumps replayed into the real code; executions recorded from the real code validated by TLC trace specifications'}],
        'checks': checks,
        'not_applicable': na,
        'notes': 'See DESIGN.md. Known findings: known_findings.json. Seeded changes used to test the checks: seeded/.',
    }
    json.dump(m, open(os.path.join(ROOT, 'MANIFEST.json'), 'w'), indent=1)
    try:
        import jsonschema
        jsonschema.validate(m, json.load(open('/root/.vp/MANIFEST.schema.json')))
        print('MANIFEST valid;', len(checks), 'checks,', len(na), 'not claimed')
    except ImportError:
        print('written (jsonschema not available)')

main()

#!/bin/sh
# confirm every seeded candidate that has no mutN_confirm.json yet, up to $1 (default 4) at a time
P=${1:-4}
ls /verif/seeded/_unverified/*/mut*.diff | while read f; do
  d=$(dirname $f); n=$(basename $f .diff | sed 's/mut//')
  [ -f $d/mut${n}_confirm.json ] || echo "$d $n"
done | xargs -P $P -L 1 sh -c '/verif/tools/confirm_seed.sh $0 $1 >/dev/null 2>&1'
echo all-done

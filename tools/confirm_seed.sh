#!/bin/sh
# usage: confirm_seed.sh <dir-with-mutN.diff> <N>
# Confirms an agent-written change in a scratch worktree: patch applies, demo exits 0 clean / 1 changed,
# the repository's unedited suite keeps exactly the 9 baseline failures.  Writes <dir>/mutN_confirm.json.
D="$1"; N="$2"
WT=/tmp/cs.$$.$N
git -C /repo worktree add --detach $WT HEAD >/dev/null 2>&1 || exit 3
cp /repo/src/pylife/rainflow_ext*.so $WT/src/pylife/
cd $WT
PYTHONPATH=$WT/src /venv/bin/python $D/mut${N}_demo.py >/dev/null 2>&1; clean=$?
if git apply --whitespace=nowarn $D/mut$N.diff 2>/dev/null; then applies=true; else applies=false; fi
rebuilt=false
if git diff --name-only | grep -q extension.pyx; then
  /venv/bin/python -m cython -3 --module-name pylife.rainflow_ext src/pylife/stress/rainflow/extension.pyx -o /tmp/cs.$$.$N.c >/dev/null 2>&1 && \
  gcc -shared -fPIC -O2 -w $(/venv/bin/python -c "import sysconfig,numpy;print('-I'+sysconfig.get_paths()['include'],'-I'+numpy.get_include())") /tmp/cs.$$.$N.c -o src/pylife/rainflow_ext.cpython-312-x86_64-linux-gnu.so && rebuilt=true
  rm -f /tmp/cs.$$.$N.c
fi
PYTHONPATH=$WT/src /venv/bin/python $D/mut${N}_demo.py > /tmp/cs.$$.$N.demo 2>&1; mutated=$?
PYTHONPATH=$WT/src /venv/bin/python -m pytest -q -p no:cacheprovider --timeout=900 --continue-on-collection-errors 2>&1 | tail -15 > /tmp/cs.$$.$N.suite
summary=$(tail -1 /tmp/cs.$$.$N.suite)
failed=$(grep -E "^(FAILED|ERROR)" /tmp/cs.$$.$N.suite | sed 's/ - .*//' | sort | tr '\n' ';')
demo_out=$(head -c 600 /tmp/cs.$$.$N.demo | tr '\n"\\\t' ' ./ ')
cd /
git -C /repo worktree remove --force $WT
rm -f /tmp/cs.$$.$N.suite /tmp/cs.$$.$N.demo
cat > $D/mut${N}_confirm.json <<EOJ
{"applies": $applies, "demo_clean_exit": $clean, "demo_mutated_exit": $mutated, "rebuilt_extension": $rebuilt,
 "suite_summary": "$summary", "suite_failed": "$failed", "demo_output_with_change": "$demo_out",
 "ran": "git worktree of /repo HEAD under /tmp; demo on clean tree; git apply; demo again; full suite with PYTHONPATH=<wt>/src"}
EOJ
cat $D/mut${N}_confirm.json

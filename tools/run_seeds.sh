#!/bin/sh
# run the quick tier of every check for several seeds; any VIOLATION / rc != 0 on the unchanged tree would be a flaky false alarm
for s in ${@:-1 2 3}; do echo "=== seed $s"; VERIF_SEED=$s tools/run_all.sh quick; done
